# DESIGN APPENDIX, NOT PART OF THE MACHINERY.
# Hand-encoded inner step of Kahn (graph.go TopologicalSort) with the cardFalse axioms, used during
# round 0 only to see whether the counting argument closes in z3 (it does, with staged ghost asserts).
# It is a model; nothing in MANIFEST.json runs it and no property claim rests on it.
# Run: python3-vt kahn_step.py
# Throw-away spike: inner step of Kahn (TopologicalSort graph.go:365-370) with cardFalse axioms.
from z3 import *
import time
K = DeclareSort('K')
inN = Function('inN', K, BoolSort())
dl = Function('dl', K, IntSort()); da = Function('da', K, IntSort(), K)     # Dependencies
tl = Function('tl', K, IntSort()); ta = Function('ta', K, IntSort(), K)     # Dependents
mI = Function('mI', K, IntSort(), IntSort()); mJ = Function('mJ', K, IntSort(), IntSort())
BA = ArraySort(IntSort(), BoolSort())
cf = Function('cardFalse', BA, IntSort(), IntSort())
a = Const('a', BA); n, i, j = Ints('n i j'); k, u = Consts('k u', K)
ax = [
 ForAll([k], And(dl(k) >= 0, tl(k) >= 0)),
 ForAll([a, n], cf(a, n) >= 0, patterns=[cf(a, n)]),
 ForAll([a, n, i], Implies(And(0 <= i, i < n, Not(a[i])), cf(Store(a, i, True), n) == cf(a, n) - 1), patterns=[cf(Store(a, i, True), n)]),
 ForAll([a, n, i], Implies(And(0 <= i, i < n, Not(a[i])), cf(a, n) >= 1), patterns=[MultiPattern(cf(a, n), a[i])]),
 # bijection (post of updateDegrees)
 ForAll([u, j], Implies(And(inN(u), 0 <= j, j < tl(u)), And(inN(ta(u, j)), 0 <= mI(u, j), mI(u, j) < dl(ta(u, j)), da(ta(u, j), mI(u, j)) == u, mJ(ta(u, j), mI(u, j)) == j)), patterns=[ta(u, j)]),
 ForAll([k, i], Implies(And(inN(k), 0 <= i, i < dl(k)), And(inN(da(k, i)), 0 <= mJ(k, i), mJ(k, i) < tl(da(k, i)), ta(da(k, i), mJ(k, i)) == k, mI(da(k, i), mJ(k, i)) == i)), patterns=[da(k, i)]),
]
class S:
    def __init__(s, x):
        s.cnt = Function('cnt'+x, K, IntSort())
        s.done = Function('done'+x, K, BA)
        s.enq = Function('enq'+x, K, BoolSort())
        s.qpos = Function('qpos'+x, K, IntSort())
        s.qt = Int('qt'+x)
s0, s1 = S('0'), S('1')
cur = Const('cur', K); jj = Int('jj'); qh = Int('qh')   # processing Dependents(cur)[jj]; cur was dequeued: qpos(cur) == qh-1
def processed(s, x): return And(s.enq(x), s.qpos(x) < qh - 1)
def inv(s, jv):
    return [
     ('K2', ForAll([k], Implies(inN(k), s.cnt(k) == cf(s.done(k), dl(k))), patterns=[s.cnt(k)])),
     ('K2b', ForAll([k], Implies(inN(k), s.enq(k) == (s.cnt(k) == 0)), patterns=[s.enq(k)])),
     ('K3', ForAll([k, i], Implies(And(inN(k), 0 <= i, i < dl(k)),
            s.done(k)[i] == Or(processed(s, da(k, i)), And(da(k, i) == cur, mJ(k, i) < jv))), patterns=[s.done(k)[i], da(k, i)])),
     ('K1', ForAll([k], Implies(s.enq(k), And(0 <= s.qpos(k), s.qpos(k) < s.qt)), patterns=[s.qpos(k)])),
     ('K4', ForAll([k, i], Implies(And(inN(k), s.enq(k), 0 <= i, i < dl(k)), And(s.enq(da(k, i)), s.qpos(da(k, i)) < s.qpos(k))), patterns=[da(k, i)])),
    ]
ctx = [inN(cur), s0.enq(cur), s0.qpos(cur) == qh - 1, qh - 1 < s0.qt, 0 <= jj, jj < tl(cur)]
dep = ta(cur, jj); ii = mI(cur, jj)
step_common = [ForAll([k], s1.cnt(k) == If(k == dep, s0.cnt(k) - 1, s0.cnt(k))),
               ForAll([k], s1.done(k) == If(k == dep, Store(s0.done(k), ii, True), s0.done(k)))]
hit = s0.cnt(dep) - 1 == 0
enqueue = [hit, ForAll([k], s1.enq(k) == Or(s0.enq(k), k == dep)), ForAll([k], s1.qpos(k) == If(k == dep, s0.qt, s0.qpos(k))), s1.qt == s0.qt + 1]
noenq = [Not(hit), ForAll([k], s1.enq(k) == s0.enq(k)), ForAll([k], s1.qpos(k) == s0.qpos(k)), s1.qt == s0.qt]
def check(name, hyps, goals):
    for gname, g in goals:
        s = Solver(); s.set('timeout', 30000); s.add(ax); s.add(hyps); s.add(Not(g))
        t = time.time(); r = s.check(); print('%-22s %-5s %-7s %.2fs' % (name, gname, r, time.time()-t))
H = [g for _, g in inv(s0, jj)] + ctx
check('ghost assert 1', H, [('undone', Not(s0.done(dep)[ii])), ('depne', dep != cur)])
H = H + [Not(s0.done(dep)[ii])]
check('ghost assert 2', H, [('cnt>=1', s0.cnt(dep) >= 1)])
H = H + [s0.cnt(dep) >= 1]
check('ghost assert 3', H, [('notenq', Not(s0.enq(dep)))])
H = H + [Not(s0.enq(dep))]
check('dec+enqueue', H + step_common + enqueue, inv(s1, jj + 1))
check('dec only', H + step_common + noenq, inv(s1, jj + 1))
print('--- staged for enqueue/K4')
Hs = H + step_common + enqueue
alltrue = ForAll([i], Implies(And(0 <= i, i < dl(dep)), s1.done(dep)[i]), patterns=[s1.done(dep)[i]])
check('stage1', Hs, [('cf0', cf(s1.done(dep), dl(dep)) == 0)])
check('stage2', Hs + [cf(s1.done(dep), dl(dep)) == 0], [('alltrue', alltrue)])
check('stage3', Hs + [alltrue], [('K4', dict(inv(s1, jj+1))['K4'])])
