# DESIGN APPENDIX, NOT PART OF THE MACHINERY.
# Hand-encoded abstract transition system of graph.go detectCyclesFrom, used during round 0 only to
# debug the loop invariants quoted in DESIGN.md (C05) before they are attached to the real code.
# It is a model; nothing in MANIFEST.json runs it and no property claim rests on it.
# Run: python3-vt dfs_invariants.py   (all goals unsat; the MUT/WEAK lines must be sat/unknown)
# Throw-away spike: are the DESIGN.md invariants for detectCyclesFrom inductive?
# Hand encoding of the loop of internal/graph/graph.go:452-491 (NOT framework code).
from z3 import *
import time
K = DeclareSort('K')
elen = Function('elen', K, IntSort())
eat  = Function('eat', K, IntSort(), K)
start = Const('start', K)

class St:
    def __init__(s, sfx):
        s.n   = Int('n'+sfx)
        s.key = Function('key'+sfx, IntSort(), K)
        s.mk  = Function('mk'+sfx, IntSort(), BoolSort())     # marked (= !item.visiting)
        s.visiting = Function('visiting'+sfx, K, BoolSort())
        s.visited  = Function('visited'+sfx, K, BoolSort())
        # ghost
        s.pl  = Int('pl'+sfx)
        s.pk  = Function('pk'+sfx, IntSort(), K)
        s.pe  = Function('pe'+sfx, IntSort(), IntSort())      # edge index pk[j] -> pk[j+1]
        s.si  = Function('si'+sfx, IntSort(), IntSort())      # stack index of j-th path entry
        s.pidx= Function('pidx'+sfx, K, IntSort())
        s.d   = Function('d'+sfx, IntSort(), IntSort())
        s.se  = Function('se'+sfx, IntSort(), IntSort())      # edge index pusher -> key[i]
        s.fin = Function('fin'+sfx, K, IntSort())
        s.clock = Int('clock'+sfx)
        s.w   = Function('w'+sfx, IntSort(), IntSort(), IntSort())

i, j, idx = Ints('i j idx'); k, u = Consts('k u', K)

def inv(s, extra_inner=None):
    c = []
    c.append(('A0a', And(s.n >= 0, s.pl >= 0, s.d(0) == 0, s.pl == s.d(s.n))))
    c.append(('A0b', ForAll([i], Implies(And(0 <= i, i < s.n), s.d(i+1) == s.d(i) + If(s.mk(i), 1, 0)), patterns=[s.d(i+1)])))
    c.append(('A0c', ForAll([i, j], Implies(And(0 <= i, i <= j, j <= s.n), And(0 <= s.d(i), s.d(i) <= s.d(j))), patterns=[MultiPattern(s.d(i), s.d(j))])))
    c.append(('A1', ForAll([i], Implies(And(0 <= i, i < s.n, s.mk(i)), And(s.pk(s.d(i)) == s.key(i), s.si(s.d(i)) == i)), patterns=[s.mk(i)])))
    c.append(('A1b', ForAll([j], Implies(And(0 <= j, j < s.pl), And(0 <= s.si(j), s.si(j) < s.n, s.mk(s.si(j)), s.d(s.si(j)) == j)), patterns=[s.si(j)])))
    c.append(('A2', ForAll([j], Implies(And(0 <= j, j+1 < s.pl), And(0 <= s.pe(j), s.pe(j) < elen(s.pk(j)), eat(s.pk(j), s.pe(j)) == s.pk(j+1))), patterns=[s.pe(j)])))
    c.append(('A2b', ForAll([i], Implies(And(0 < i, i < s.n), And(s.d(i) >= 1, 0 <= s.se(i), s.se(i) < elen(s.pk(s.d(i)-1)), eat(s.pk(s.d(i)-1), s.se(i)) == s.key(i))), patterns=[s.se(i)])))
    c.append(('A3', ForAll([k], s.visiting(k) == And(0 <= s.pidx(k), s.pidx(k) < s.pl, s.pk(s.pidx(k)) == k), patterns=[s.visiting(k)])))
    c.append(('A3b', ForAll([j], Implies(And(0 <= j, j < s.pl), s.pidx(s.pk(j)) == j), patterns=[s.pk(j)])))
    c.append(('A4', ForAll([u, idx], Implies(And(s.visited(u), 0 <= idx, idx < elen(u)), And(s.visited(eat(u, idx)), s.fin(eat(u, idx)) < s.fin(u))), patterns=[eat(u, idx)])))
    c.append(('A4b', ForAll([u], Implies(s.visited(u), s.fin(u) < s.clock), patterns=[s.visited(u)])))
    c.append(('A5', ForAll([i], Implies(And(0 <= i, i < s.n, s.mk(i)), Not(s.visited(s.key(i)))), patterns=[s.mk(i)])))
    def a6(i_hi_excl_idx=None):
        pass
    c.append(('A7', Or(s.visited(start), And(s.n > 0, s.key(0) == start))))
    return c

def A6(s, exc_i=None, exc_lo=None):
    # marked i, every edge idx: visited or witness above; optionally for i == exc_i only idx < exc_lo
    body = Or(s.visited(eat(s.key(i), idx)),
              And(i < s.w(i, idx), s.w(i, idx) < s.n, s.key(s.w(i, idx)) == eat(s.key(i), idx)))
    guard = And(0 <= i, i < s.n, s.mk(i), 0 <= idx, idx < elen(s.key(i)))
    if exc_i is not None:
        guard = And(guard, Or(i != exc_i, idx < exc_lo))
    return ForAll([i, idx], Implies(guard, body), patterns=[eat(s.key(i), idx)])

axioms = [ForAll([k], elen(k) >= 0)]

def check(name, hyps, goals):
    for gname, g in goals:
        s = Solver(); s.set('timeout', 20000)
        s.add(axioms); s.add(hyps); s.add(Not(g))
        t = time.time(); r = s.check()
        print('%-28s %-6s %-7s %.2fs' % (name, gname, r, time.time()-t))

def same(f, g, *vars_):
    return ForAll(list(vars_), f(*vars_) == g(*vars_))

s0, s1 = St('0'), St('1')
H = [g for _, g in inv(s0)] + [A6(s0)]
t = s0.n - 1
top = s0.key(t)

# ---- Case B: top marked -> pop, visiting delete, visited set, fin:=clock
B = [s0.n > 0, s0.mk(t),
     s1.n == s0.n - 1, same(s1.key, s0.key, i), same(s1.mk, s0.mk, i),
     ForAll([k], s1.visiting(k) == And(s0.visiting(k), k != top)),
     ForAll([k], s1.visited(k) == Or(s0.visited(k), k == top)),
     s1.pl == s0.pl - 1, same(s1.pk, s0.pk, i), same(s1.pe, s0.pe, i), same(s1.si, s0.si, i),
     same(s1.pidx, s0.pidx, k), same(s1.d, s0.d, i), same(s1.se, s0.se, i),
     ForAll([k], s1.fin(k) == If(k == top, s0.clock, s0.fin(k))), s1.clock == s0.clock + 1,
     ForAll([i, idx], s1.w(i, idx) == s0.w(i, idx))]
check('B(backtrack)', H + B, inv(s1) + [('A6', A6(s1))])

# ---- Case V: top pending, not visiting, visited -> pop
V = [s0.n > 0, Not(s0.mk(t)), Not(s0.visiting(top)), s0.visited(top),
     s1.n == s0.n - 1, same(s1.key, s0.key, i), same(s1.mk, s0.mk, i),
     same(s1.visiting, s0.visiting, k), same(s1.visited, s0.visited, k),
     s1.pl == s0.pl, same(s1.pk, s0.pk, i), same(s1.pe, s0.pe, i), same(s1.si, s0.si, i),
     same(s1.pidx, s0.pidx, k), same(s1.d, s0.d, i), same(s1.se, s0.se, i),
     same(s1.fin, s0.fin, k), s1.clock == s0.clock, ForAll([i, idx], s1.w(i, idx) == s0.w(i, idx))]
check('V(pop visited)', H + V, inv(s1) + [('A6', A6(s1))])

# ---- Case C: top pending and visiting -> cycle; goal: witness cycle pk[jx..pl-1] ++ [top]
jx = s0.pidx(top)
C = [s0.n > 0, Not(s0.mk(t)), s0.visiting(top)]
goalC = And(0 <= jx, jx < s0.pl, s0.pk(jx) == top,            # cycle starts at top
            t > 0, s0.d(t) == s0.pl,                            # pusher is path top
            0 <= s0.se(t), s0.se(t) < elen(s0.pk(s0.pl-1)), eat(s0.pk(s0.pl-1), s0.se(t)) == top)  # closing edge
check('C(cycle)', H + C, [('cyc', goalC)])

# ---- Case E part 1: top pending, fresh -> mark, push on path (before inner loop)
E1 = [s0.n > 0, Not(s0.mk(t)), Not(s0.visiting(top)), Not(s0.visited(top)),
      s1.n == s0.n, same(s1.key, s0.key, i), ForAll([i], s1.mk(i) == Or(s0.mk(i), i == t)),
      ForAll([k], s1.visiting(k) == Or(s0.visiting(k), k == top)), same(s1.visited, s0.visited, k),
      s1.pl == s0.pl + 1, ForAll([i], s1.pk(i) == If(i == s0.pl, top, s0.pk(i))),
      ForAll([i], s1.pe(i) == If(i == s0.pl - 1, s0.se(t), s0.pe(i))),
      ForAll([i], s1.si(i) == If(i == s0.pl, t, s0.si(i))),
      ForAll([k], s1.pidx(k) == If(k == top, s0.pl, s0.pidx(k))),
      ForAll([i], s1.d(i) == If(i == s0.n, s0.d(i) + 1, s0.d(i))),
      same(s1.se, s0.se, i), same(s1.fin, s0.fin, k), s1.clock == s0.clock,
      ForAll([i, idx], s1.w(i, idx) == s0.w(i, idx))]
# after marking, A6 holds for all marked except the new one (idx < 0 processed)
check('E1(mark)', H + E1, inv(s1) + [('A6x', A6(s1, exc_i=t, exc_lo=0))])

# ---- Case E part 2: inner loop iteration m: dep = eat(top, m); if !visited push
# inner invariant: inv(s) /\ A6 with exception (t0, m) /\ mk[t0] /\ key[t0]==top0 /\ d(t0+1) == pl ... (t0 fixed)
t0 = Int('t0'); m = Int('m')
Hin = [g for _, g in inv(s0)] + [A6(s0, exc_i=t0, exc_lo=m), 0 <= t0, t0 < s0.n, s0.mk(t0), 0 <= m, m < elen(s0.key(t0)),
       s0.d(t0) == s0.pl - 1]      # t0 is the top of the path
dep = eat(s0.key(t0), m)
Push = [Not(s0.visited(dep)),
        s1.n == s0.n + 1, ForAll([i], s1.key(i) == If(i == s0.n, dep, s0.key(i))),
        ForAll([i], s1.mk(i) == And(s0.mk(i), i != s0.n)),
        same(s1.visiting, s0.visiting, k), same(s1.visited, s0.visited, k),
        s1.pl == s0.pl, same(s1.pk, s0.pk, i), same(s1.pe, s0.pe, i), same(s1.si, s0.si, i), same(s1.pidx, s0.pidx, k),
        ForAll([i], s1.d(i) == If(i == s0.n + 1, s0.pl, s0.d(i))),
        ForAll([i], s1.se(i) == If(i == s0.n, m, s0.se(i))),
        same(s1.fin, s0.fin, k), s1.clock == s0.clock,
        ForAll([i, idx], s1.w(i, idx) == If(And(i == t0, idx == m), s0.n, s0.w(i, idx)))]
post_in = inv(s1) + [('A6x', A6(s1, exc_i=t0, exc_lo=m+1)), ('top', And(s1.mk(t0), s1.d(t0) == s1.pl - 1))]
check('E2(push dep)', Hin + Push, post_in)
Skip = [s0.visited(dep), s1.n == s0.n, same(s1.key, s0.key, i), same(s1.mk, s0.mk, i),
        same(s1.visiting, s0.visiting, k), same(s1.visited, s0.visited, k), s1.pl == s0.pl, same(s1.pk, s0.pk, i),
        same(s1.pe, s0.pe, i), same(s1.si, s0.si, i), same(s1.pidx, s0.pidx, k), same(s1.d, s0.d, i), same(s1.se, s0.se, i),
        same(s1.fin, s0.fin, k), s1.clock == s0.clock, ForAll([i, idx], s1.w(i, idx) == s0.w(i, idx))]
check('E2(skip visited dep)', Hin + Skip, post_in)
# inner loop exit: m == elen => full A6
Hexit = [g for _, g in inv(s0)] + [A6(s0, exc_i=t0, exc_lo=elen(s0.key(t0))), 0 <= t0, t0 < s0.n, s0.mk(t0)]
check('E3(inner exit)', Hexit, [('A6', A6(s0))])

# ---- Init: stack = [{start, pending}], everything empty
Init = [s1.n == 1, s1.key(0) == start, Not(s1.mk(0)), ForAll([k], Not(s1.visiting(k))), ForAll([k], Not(s1.visited(k))),
        s1.pl == 0, s1.d(0) == 0, s1.d(1) == 0, s1.clock == 0]
check('Init', Init, inv(s1) + [('A6', A6(s1))])

# ---- Exit nil: n == 0 => certificate closedAcyclicFrom(start, visited, fin)
Exit = [s0.n == 0]
cert = And(s0.visited(start), ForAll([u, idx], Implies(And(s0.visited(u), 0 <= idx, idx < elen(u)), And(s0.visited(eat(u, idx)), s0.fin(eat(u, idx)) < s0.fin(u)))))
check('Exit(nil => cert)', H + Exit, [('cert', cert)])

print('--- vacuity / must-fail')
def sat_check(name, hyps):
    s = Solver(); s.set('timeout', 20000); s.add(axioms); s.add(hyps)
    print('%-28s %s' % (name, s.check()))
sat_check('H+B consistent', H + B)
sat_check('H+E1 consistent', H + E1)
sat_check('Hin+Push consistent', Hin + Push)
sat_check('H+C consistent', H + C)
# must-fail 1: mutant "backtrack forgets visited[item.key] = true"
Bm = list(B); Bm[6] = ForAll([k], s1.visited(k) == s0.visited(k))
check('MUT B(no visited)', H + Bm, [('A6', A6(s1)), ('A7', inv(s1)[-1][1])])
# must-fail 2: mutant "push only deps that ARE visited" -> A6x must fail on skip branch (dep unvisited, not pushed)
Skipm = list(Skip); Skipm[0] = Not(s0.visited(dep))
check('MUT E2(skip unvisited)', Hin + Skipm, [('A6x', A6(s1, exc_i=t0, exc_lo=m+1))])
# must-fail 3: hypothesis weakening: without A5, backtrack cannot keep A4
H_noA5 = [g for n_, g in inv(s0) if n_ != 'A5'] + [A6(s0)]
check('WEAK B(no A5)', H_noA5 + B, [('A4', dict(inv(s1))['A4'])])
