package main

import (
	"fmt"
	"go/ast"
	"go/token"
	"go/types"
	"os"
	"path/filepath"
	"sort"
	"strings"

	"golang.org/x/tools/go/packages"
)

type FuncUnit struct {
	Name     string // contract name: Recv.Method, Func, Outer$1
	Pkg      *packages.Package
	Decl     *ast.FuncDecl // enclosing declaration
	Lit      *ast.FuncLit  // non-nil for closure units
	Body     *ast.BlockStmt
	Type     *ast.FuncType
	Obj      *types.Func // nil for closures
	Sig      *types.Signature
	Recv     *ast.FieldList
	Contract *FuncContract
}

type Program struct {
	Fset      *token.FileSet
	Pkgs      map[string]*packages.Package // by path
	Contracts map[string]*ContractSet      // by package path
	Units     map[string]*FuncUnit         // pkgpath + "::" + name
	ByObj     map[*types.Func]*FuncUnit
	LitUnits  map[*ast.FuncLit]*FuncUnit
	Repo      string
	Modules   []string
	LoadErrs  []string
}

func unitKey(pkgPath, name string) string { return pkgPath + "::" + name }

func recvTypeName(t types.Type) string {
	if p, ok := t.(*types.Pointer); ok {
		t = p.Elem()
	}
	if n, ok := types.Unalias(t).(*types.Named); ok {
		return n.Obj().Name()
	}
	return shortTypeString(t)
}

func funcName(f *types.Func) string {
	sig := f.Type().(*types.Signature)
	if sig.Recv() != nil {
		return recvTypeName(sig.Recv().Type()) + "." + f.Name()
	}
	return f.Name()
}

func LoadProgram(repo string, dirs []string) (*Program, error) {
	p := &Program{Pkgs: map[string]*packages.Package{}, Contracts: map[string]*ContractSet{}, Units: map[string]*FuncUnit{},
		ByObj: map[*types.Func]*FuncUnit{}, LitUnits: map[*ast.FuncLit]*FuncUnit{}, Repo: repo}
	p.Fset = token.NewFileSet()
	for _, d := range dirs {
		cfg := &packages.Config{Mode: packages.NeedName | packages.NeedFiles | packages.NeedCompiledGoFiles | packages.NeedImports | packages.NeedDeps | packages.NeedTypes | packages.NeedSyntax | packages.NeedTypesInfo | packages.NeedTypesSizes | packages.NeedModule,
			Dir: filepath.Join(repo, d), BuildFlags: []string{"-tags=verif"}, Fset: p.Fset,
			Env: append(os.Environ(), "GOFLAGS=-mod=mod", "GOPROXY=off")}
		pkgs, err := packages.Load(cfg, "./...")
		if err != nil {
			return nil, err
		}
		for _, pk := range pkgs {
			for _, e := range pk.Errors {
				p.LoadErrs = append(p.LoadErrs, e.Error())
			}
			if !strings.HasPrefix(pk.PkgPath, "github.com/junioryono/godi") {
				continue
			}
			if _, dup := p.Pkgs[pk.PkgPath]; dup {
				continue
			}
			p.Pkgs[pk.PkgPath] = pk
		}
		// also pick up godi packages imported by sub-modules (already loaded via root normally)
	}
	if len(p.LoadErrs) > 0 {
		return p, fmt.Errorf("load errors: %s", strings.Join(p.LoadErrs, "; "))
	}
	paths := make([]string, 0, len(p.Pkgs))
	for k := range p.Pkgs {
		paths = append(paths, k)
	}
	sort.Strings(paths)
	for _, path := range paths {
		pk := p.Pkgs[path]
		cs := NewContractSet()
		cs.PkgPath = path
		p.Contracts[path] = cs
		for _, f := range pk.CompiledGoFiles {
			if strings.HasSuffix(f, "_verif.go") {
				if err := LoadContractFile(f, cs); err != nil {
					return p, err
				}
			}
		}
		for _, file := range pk.Syntax {
			for _, d := range file.Decls {
				fd, ok := d.(*ast.FuncDecl)
				if !ok || fd.Body == nil {
					continue
				}
				obj, _ := pk.TypesInfo.Defs[fd.Name].(*types.Func)
				if obj == nil {
					continue
				}
				name := funcName(obj)
				u := &FuncUnit{Name: name, Pkg: pk, Decl: fd, Body: fd.Body, Type: fd.Type, Obj: obj, Sig: obj.Type().(*types.Signature), Recv: fd.Recv}
				p.Units[unitKey(path, name)] = u
				p.ByObj[obj] = u
				p.indexLits(u, fd.Body, name)
			}
		}
		for name, c := range cs.Funcs {
			if u, ok := p.Units[unitKey(path, name)]; ok {
				u.Contract = c
			}
		}
	}
	return p, nil
}

// indexLits registers closure units Outer$1, Outer$1$2 ... (ordinal among sibling literals in source order)
func (p *Program) indexLits(outer *FuncUnit, body ast.Node, prefix string) {
	n := 0
	var walk func(node ast.Node) bool
	walk = func(node ast.Node) bool {
		if node == nil {
			return true
		}
		if fl, ok := node.(*ast.FuncLit); ok {
			n++
			name := fmt.Sprintf("%s$%d", prefix, n)
			sig, _ := outer.Pkg.TypesInfo.TypeOf(fl).(*types.Signature)
			u := &FuncUnit{Name: name, Pkg: outer.Pkg, Decl: outer.Decl, Lit: fl, Body: fl.Body, Type: fl.Type, Sig: sig}
			p.Units[unitKey(outer.Pkg.PkgPath, name)] = u
			p.LitUnits[fl] = u
			p.indexLits(u, fl.Body, name)
			return false
		}
		return true
	}
	ast.Inspect(body, walk)
}

func (p *Program) ContractFor(pkgPath, name string) *FuncContract {
	if cs, ok := p.Contracts[pkgPath]; ok {
		if c, ok := cs.Funcs[name]; ok {
			return c
		}
	}
	return nil
}

// FindContractAnyPkg looks a contract name up in the given package first, then in every package.
func (p *Program) FindContractAnyPkg(pkgPath, name string) *FuncContract {
	if c := p.ContractFor(pkgPath, name); c != nil {
		return c
	}
	for _, cs := range p.Contracts {
		if c, ok := cs.Funcs[name]; ok {
			return c
		}
	}
	return nil
}

func (p *Program) Pred(pkgPath, name string) *PredDecl {
	if cs, ok := p.Contracts[pkgPath]; ok {
		if pd, ok := cs.Preds[name]; ok {
			return pd
		}
	}
	for _, cs := range p.Contracts {
		if pd, ok := cs.Preds[name]; ok {
			return pd
		}
	}
	return nil
}

func (p *Program) pos(n ast.Node) string {
	ps := p.Fset.Position(n.Pos())
	return fmt.Sprintf("%s:%d", strings.TrimPrefix(ps.Filename, p.Repo+"/"), ps.Line)
}
