package main

// SMT sorts and terms. Terms are SMT-LIB strings with a sort and (optionally) the Go type they stand for.

import (
	"fmt"
	"go/types"
	"sort"
	"strings"
)

type SortKind int

const (
	KInt SortKind = iota
	KBool
	KStr
	KIface
	KStruct // SMT datatype with accessors
	KSlice  // datatype (mk isnil len arr)
	KOpaque // uninterpreted sort
	KArray  // SMT array (spec-level only / heap components)
)

type Sort struct {
	Name   string // SMT name (already quoted if needed)
	Kind   SortKind
	Elem   *Sort   // slice elem / array range
	Key    *Sort   // array domain
	Fields []Field // struct
	GoT    types.Type
}

type Field struct {
	Name string
	Sort *Sort
	GoT  types.Type
}

type Term struct {
	S    string
	Sort *Sort
	GoT  types.Type // may be nil for pure spec terms
}

var (
	SInt   = &Sort{Name: "Int", Kind: KInt}
	SBool  = &Sort{Name: "Bool", Kind: KBool}
	SStr   = &Sort{Name: "Str", Kind: KStr}
	SIface = &Sort{Name: "Iface", Kind: KIface}
)

func q(s string) string {
	for _, c := range s {
		if !(c == '_' || c == '.' || c == '$' || c == '!' || c == '@' || c >= '0' && c <= '9' || c >= 'a' && c <= 'z' || c >= 'A' && c <= 'Z') {
			return "|" + strings.ReplaceAll(strings.ReplaceAll(s, "|", "!"), "\\", "/") + "|"
		}
	}
	if s == "" || (s[0] >= '0' && s[0] <= '9') {
		return "|" + s + "|"
	}
	return s
}

func T(s string, so *Sort) Term          { return Term{S: s, Sort: so} }
func TG(s string, so *Sort, g types.Type) Term { return Term{S: s, Sort: so, GoT: g} }

var (
	True  = Term{S: "true", Sort: SBool}
	False = Term{S: "false", Sort: SBool}
)

func IntLit(n int64) Term {
	if n < 0 {
		return T(fmt.Sprintf("(- %d)", -n), SInt)
	}
	return T(fmt.Sprintf("%d", n), SInt)
}

func And(ts ...Term) Term {
	var parts []string
	for _, t := range ts {
		if t.S == "true" {
			continue
		}
		if t.S == "false" {
			return False
		}
		parts = append(parts, t.S)
	}
	if len(parts) == 0 {
		return True
	}
	if len(parts) == 1 {
		return T(parts[0], SBool)
	}
	return T("(and "+strings.Join(parts, " ")+")", SBool)
}

func Or(ts ...Term) Term {
	var parts []string
	for _, t := range ts {
		if t.S == "false" {
			continue
		}
		if t.S == "true" {
			return True
		}
		parts = append(parts, t.S)
	}
	if len(parts) == 0 {
		return False
	}
	if len(parts) == 1 {
		return T(parts[0], SBool)
	}
	return T("(or "+strings.Join(parts, " ")+")", SBool)
}

func Not(t Term) Term {
	if t.S == "true" {
		return False
	}
	if t.S == "false" {
		return True
	}
	if strings.HasPrefix(t.S, "(not ") {
		return T(t.S[5:len(t.S)-1], SBool)
	}
	return T("(not "+t.S+")", SBool)
}

func Implies(a, b Term) Term {
	if a.S == "true" {
		return b
	}
	if a.S == "false" || b.S == "true" {
		return True
	}
	return T("(=> "+a.S+" "+b.S+")", SBool)
}

func Eq(a, b Term) Term {
	if a.S == b.S {
		return True
	}
	return T("(= "+a.S+" "+b.S+")", SBool)
}

func Ite(c, a, b Term) Term {
	if c.S == "true" {
		return a
	}
	if c.S == "false" {
		return b
	}
	if a.S == b.S {
		return a
	}
	r := a
	r.S = "(ite " + c.S + " " + a.S + " " + b.S + ")"
	return r
}

func App(f string, so *Sort, args ...Term) Term {
	if len(args) == 0 {
		return T(f, so)
	}
	parts := make([]string, len(args))
	for i, a := range args {
		parts[i] = a.S
	}
	return T("("+f+" "+strings.Join(parts, " ")+")", so)
}

func Select(arr Term, idx Term) Term {
	return Term{S: "(select " + arr.S + " " + idx.S + ")", Sort: arr.Sort.Elem}
}

func Store(arr, idx, v Term) Term {
	return Term{S: "(store " + arr.S + " " + idx.S + " " + v.S + ")", Sort: arr.Sort}
}

// ---------------------------------------------------------------------------
// Sort universe (per verification unit)

type Universe struct {
	sorts     map[string]*Sort // by SMT name
	order     []*Sort          // declaration order (dependencies first)
	decls     []string         // const/fun declarations in order
	declared  map[string]bool
	tags      map[string]int // Go type string -> tag
	tagTypes  []types.Type
	axioms    []string // global axioms (box/unbox etc.)
	ifacePred map[string]*types.Interface
	ifaceName map[string]string
	strLits   map[string]string
	fresh     int
	pkgPath   string
	opaqueOK  func(*types.Named) bool
}

func NewUniverse() *Universe {
	return &Universe{sorts: map[string]*Sort{}, declared: map[string]bool{}, tags: map[string]int{},
		ifacePred: map[string]*types.Interface{}, ifaceName: map[string]string{}, strLits: map[string]string{}}
}

func (u *Universe) arraySort(k, e *Sort) *Sort {
	name := "(Array " + k.Name + " " + e.Name + ")"
	if s, ok := u.sorts[name]; ok {
		return s
	}
	s := &Sort{Name: name, Kind: KArray, Key: k, Elem: e}
	u.sorts[name] = s
	return s
}

func (u *Universe) sliceSort(e *Sort) *Sort {
	name := q("Slice<" + strings.Trim(e.Name, "|") + ">")
	if s, ok := u.sorts[name]; ok {
		return s
	}
	s := &Sort{Name: name, Kind: KSlice, Elem: e}
	u.sorts[name] = s
	u.order = append(u.order, s)
	return s
}

func (u *Universe) opaqueSort(n string) *Sort {
	name := q(n)
	if s, ok := u.sorts[name]; ok {
		return s
	}
	s := &Sort{Name: name, Kind: KOpaque}
	u.sorts[name] = s
	u.order = append(u.order, s)
	return s
}

func shortTypeString(t types.Type) string {
	return types.TypeString(t, func(p *types.Package) string { return p.Name() })
}

// SortOf maps a Go type to its SMT sort.
func (u *Universe) SortOf(t types.Type) *Sort {
	if t == nil {
		return SIface
	}
	switch tt := t.(type) {
	case *types.Alias:
		return u.SortOf(types.Unalias(tt))
	case *types.Named:
		und := tt.Underlying()
		switch ut := und.(type) {
		case *types.Struct:
			return u.structSort(tt, ut)
		default:
			return u.SortOf(und)
		}
	case *types.Basic:
		info := tt.Info()
		switch {
		case info&types.IsBoolean != 0:
			return SBool
		case info&types.IsString != 0:
			return SStr
		case info&types.IsInteger != 0:
			return SInt
		case info&types.IsFloat != 0:
			return u.opaqueSort("Float")
		case tt.Kind() == types.UntypedNil:
			return SIface
		case tt.Kind() == types.UnsafePointer:
			return SInt
		}
		return u.opaqueSort("Basic_" + tt.Name())
	case *types.Pointer, *types.Map, *types.Signature, *types.Chan:
		return SInt
	case *types.Interface, *types.TypeParam:
		return SIface
	case *types.Slice:
		return u.sliceSort(u.SortOf(tt.Elem()))
	case *types.Array:
		return u.sliceSort(u.SortOf(tt.Elem()))
	case *types.Struct:
		return u.structSort(nil, tt)
	case *types.Tuple:
		return u.opaqueSort("Tuple")
	}
	return u.opaqueSort("T_" + shortTypeString(t))
}

func (u *Universe) structSort(named *types.Named, st *types.Struct) *Sort {
	var name string
	if named != nil {
		name = shortTypeString(named)
	} else {
		name = shortTypeString(st)
	}
	qn := q(name)
	if s, ok := u.sorts[qn]; ok {
		return s
	}
	// opaque if defined outside the loaded module and has unexported fields
	opaque := false
	if named != nil && named.Obj().Pkg() != nil && !strings.HasPrefix(named.Obj().Pkg().Path(), "github.com/junioryono/godi") {
		for i := 0; i < st.NumFields(); i++ {
			if !st.Field(i).Exported() {
				opaque = true
			}
		}
	}
	if opaque {
		return u.opaqueSort(name)
	}
	s := &Sort{Name: qn, Kind: KStruct, GoT: named}
	if named == nil {
		s.GoT = st
	}
	u.sorts[qn] = s // placeholder to stop recursion
	for i := 0; i < st.NumFields(); i++ {
		f := st.Field(i)
		fs := u.SortOf(f.Type())
		s.Fields = append(s.Fields, Field{Name: f.Name(), Sort: fs, GoT: f.Type()})
	}
	u.order = append(u.order, s)
	return s
}

func (s *Sort) accessor(field string) string {
	return q(strings.Trim(s.Name, "|") + "." + field)
}
func (s *Sort) ctor() string { return q("mk<" + strings.Trim(s.Name, "|") + ">") }

func (s *Sort) fieldIndex(name string) int {
	for i, f := range s.Fields {
		if f.Name == name {
			return i
		}
	}
	return -1
}

// struct helpers
func (u *Universe) StructGet(v Term, field string) Term {
	i := v.Sort.fieldIndex(field)
	if i < 0 {
		panic(fmt.Sprintf("no field %s in %s", field, v.Sort.Name))
	}
	f := v.Sort.Fields[i]
	return Term{S: "(" + v.Sort.accessor(field) + " " + v.S + ")", Sort: f.Sort, GoT: f.GoT}
}

func (u *Universe) StructSet(v Term, field string, nv Term) Term {
	args := make([]string, len(v.Sort.Fields))
	for i, f := range v.Sort.Fields {
		if f.Name == field {
			args[i] = nv.S
		} else {
			args[i] = "(" + v.Sort.accessor(f.Name) + " " + v.S + ")"
		}
	}
	if len(args) == 0 {
		return v
	}
	return Term{S: "(" + v.Sort.ctor() + " " + strings.Join(args, " ") + ")", Sort: v.Sort, GoT: v.GoT}
}

func (u *Universe) StructMk(s *Sort, vals []Term) Term {
	if len(vals) == 0 {
		return Term{S: s.ctor(), Sort: s, GoT: s.GoT}
	}
	args := make([]string, len(vals))
	for i, v := range vals {
		args[i] = v.S
	}
	return Term{S: "(" + s.ctor() + " " + strings.Join(args, " ") + ")", Sort: s, GoT: s.GoT}
}

// slice helpers
func (u *Universe) SliceLen(v Term) Term {
	return T("("+q(strings.Trim(v.Sort.Name, "|")+".len")+" "+v.S+")", SInt)
}
func (u *Universe) SliceNil(v Term) Term {
	return T("("+q(strings.Trim(v.Sort.Name, "|")+".isnil")+" "+v.S+")", SBool)
}
func (u *Universe) SliceArr(v Term) Term {
	return T("("+q(strings.Trim(v.Sort.Name, "|")+".arr")+" "+v.S+")", u.arraySort(SInt, v.Sort.Elem))
}
func (u *Universe) SliceMk(s *Sort, isnil, ln, arr Term) Term {
	return Term{S: "(" + s.ctor() + " " + isnil.S + " " + ln.S + " " + arr.S + ")", Sort: s}
}
func (u *Universe) SliceIndex(v, i Term) Term {
	t := Select(u.SliceArr(v), i)
	return t
}

// Zero value of a sort.
func (u *Universe) Zero(s *Sort) Term {
	switch s.Kind {
	case KInt:
		return T("0", SInt)
	case KBool:
		return False
	case KStr:
		return u.StrLit("")
	case KIface:
		return T("nilI", SIface)
	case KStruct:
		vals := make([]Term, len(s.Fields))
		for i, f := range s.Fields {
			vals[i] = u.Zero(f.Sort)
		}
		return u.StructMk(s, vals)
	case KSlice:
		return u.SliceMk(s, True, T("0", SInt), u.Const(q("emptyarr<"+strings.Trim(s.Elem.Name, "|")+">"), u.arraySort(SInt, s.Elem)))
	case KOpaque:
		return u.Const(q("zero<"+strings.Trim(s.Name, "|")+">"), s)
	case KArray:
		return T("((as const "+s.Name+") "+u.Zero(s.Elem).S+")", s)
	}
	panic("zero of " + s.Name)
}

func (u *Universe) Const(name string, s *Sort) Term {
	if !u.declared[name] {
		u.declared[name] = true
		u.decls = append(u.decls, fmt.Sprintf("(declare-const %s %s)", name, s.Name))
	}
	return T(name, s)
}

func (u *Universe) Fun(name string, args []*Sort, res *Sort) string {
	if !u.declared[name] {
		u.declared[name] = true
		as := make([]string, len(args))
		for i, a := range args {
			as[i] = a.Name
		}
		u.decls = append(u.decls, fmt.Sprintf("(declare-fun %s (%s) %s)", name, strings.Join(as, " "), res.Name))
	}
	return name
}

func (u *Universe) Fresh(base string, s *Sort) Term {
	u.fresh++
	return u.Const(q(fmt.Sprintf("%s!%d", base, u.fresh)), s)
}

func (u *Universe) StrLit(s string) Term {
	if n, ok := u.strLits[s]; ok {
		return T(n, SStr)
	}
	n := q(fmt.Sprintf("str%d<%s>", len(u.strLits), sanitize(s)))
	u.strLits[s] = n
	u.Const(n, SStr)
	return T(n, SStr)
}

func sanitize(s string) string {
	var b strings.Builder
	for _, c := range s {
		if c == '|' || c == '\\' || c < 32 || c > 126 {
			b.WriteByte('?')
		} else {
			b.WriteRune(c)
		}
		if b.Len() > 24 {
			break
		}
	}
	return b.String()
}

// Type tags for interface boxing
func (u *Universe) TagOf(t types.Type) Term {
	if tp, ok := t.(*types.TypeParam); ok {
		return u.Const(q("tag$"+tp.Obj().Name()), SInt)
	}
	k := types.TypeString(types.Unalias(t), nil)
	id, ok := u.tags[k]
	if !ok {
		id = len(u.tags) + 1
		u.tags[k] = id
		u.tagTypes = append(u.tagTypes, t)
	}
	return IntLit(int64(id))
}

// Box converts a concrete value into an Iface term.
func (u *Universe) Box(v Term, t types.Type) Term {
	if v.Sort == SIface {
		return v
	}
	tag := u.TagOf(t)
	var pay Term
	switch v.Sort.Kind {
	case KInt:
		pay = v
	case KBool:
		pay = Ite(v, T("1", SInt), T("0", SInt))
	default:
		pay = App(u.boxFn(v.Sort), SInt, v)
	}
	return Term{S: "(mkI " + tag.S + " " + pay.S + ")", Sort: SIface, GoT: nil}
}

func (u *Universe) boxFn(s *Sort) string {
	name := q("box<" + strings.Trim(s.Name, "|") + ">")
	if !u.declared[name] {
		u.Fun(name, []*Sort{s}, SInt)
		un := q("unbox<" + strings.Trim(s.Name, "|") + ">")
		u.Fun(un, []*Sort{SInt}, s)
		u.axioms = append(u.axioms, fmt.Sprintf("(assert (forall ((x %s)) (! (= (%s (%s x)) x) :pattern ((%s x)))))", s.Name, un, name, name))
	}
	return name
}

// Unbox extracts a value of Go type t from an iface term (no check).
func (u *Universe) Unbox(v Term, t types.Type) Term {
	s := u.SortOf(t)
	if s == SIface {
		return v
	}
	pay := T("(pay "+v.S+")", SInt)
	switch s.Kind {
	case KInt:
		return TG(pay.S, SInt, t)
	case KBool:
		return TG("(= "+pay.S+" 1)", SBool, t)
	}
	u.boxFn(s)
	un := q("unbox<" + strings.Trim(s.Name, "|") + ">")
	return TG("("+un+" "+pay.S+")", s, t)
}

func (u *Universe) IsNilIface(v Term) Term { return T("((_ is nilI) "+v.S+")", SBool) }
func (u *Universe) IfaceTag(v Term) Term   { return T("(tag "+v.S+")", SInt) }

// HasType: dynamic type of iface v is exactly t (concrete) or implements t (interface).
func (u *Universe) HasType(v Term, t types.Type) Term {
	if it, ok := t.Underlying().(*types.Interface); ok {
		if _, isTP := t.(*types.TypeParam); !isTP {
			if it.NumMethods() == 0 {
				return Not(u.IsNilIface(v))
			}
			name := shortTypeString(t)
			pn := q("impl<" + name + ">")
			u.Fun(pn, []*Sort{SInt}, SBool)
			u.ifacePred[pn] = it
			u.ifaceName[pn] = name
			return And(Not(u.IsNilIface(v)), T("("+pn+" (tag "+v.S+"))", SBool))
		}
	}
	return And(Not(u.IsNilIface(v)), Eq(u.IfaceTag(v), u.TagOf(t)))
}

// Preamble renders all sort/fun declarations.
func (u *Universe) Preamble() string {
	var b strings.Builder
	b.WriteString("(declare-sort Str 0)\n")
	b.WriteString("(declare-datatypes ((Iface 0)) (((nilI) (mkI (tag Int) (pay Int)))))\n")
	for _, s := range u.order {
		switch s.Kind {
		case KOpaque:
			fmt.Fprintf(&b, "(declare-sort %s 0)\n", s.Name)
		case KStruct:
			fmt.Fprintf(&b, "(declare-datatypes ((%s 0)) (((%s", s.Name, s.ctor())
			for _, f := range s.Fields {
				fmt.Fprintf(&b, " (%s %s)", s.accessor(f.Name), f.Sort.Name)
			}
			b.WriteString("))))\n")
		case KSlice:
			base := strings.Trim(s.Name, "|")
			fmt.Fprintf(&b, "(declare-datatypes ((%s 0)) (((%s (%s Bool) (%s Int) (%s (Array Int %s))))))\n",
				s.Name, s.ctor(), q(base+".isnil"), q(base+".len"), q(base+".arr"), s.Elem.Name)
		}
	}
	for _, d := range u.decls {
		b.WriteString(d)
		b.WriteByte('\n')
	}
	// distinct string literals
	if len(u.strLits) > 1 {
		names := make([]string, 0, len(u.strLits))
		for _, n := range u.strLits {
			names = append(names, n)
		}
		sort.Strings(names)
		fmt.Fprintf(&b, "(assert (distinct %s))\n", strings.Join(names, " "))
	}
	for _, a := range u.axioms {
		b.WriteString(a)
		b.WriteByte('\n')
	}
	// interface implementation facts for known tags
	pns := make([]string, 0, len(u.ifacePred))
	for pn := range u.ifacePred {
		pns = append(pns, pn)
	}
	sort.Strings(pns)
	for _, pn := range pns {
		it := u.ifacePred[pn]
		for i, t := range u.tagTypes {
			if _, isI := t.Underlying().(*types.Interface); isI {
				continue
			}
			v := types.Implements(t, it)
			fmt.Fprintf(&b, "(assert (= (%s %d) %v))\n", pn, i+1, v)
		}
	}
	return b.String()
}
