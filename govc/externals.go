package main

// Models of standard-library functions (the trusted external specs; listed in every evidence file).

import (
	"fmt"
	"go/ast"
	"go/token"
	"go/types"
	"strings"
)

var externalSpecsUsed = map[string]string{}

// specialRecv recognises method calls on sync.Mutex / sync.RWMutex / sync.Map fields: owner.field.Method(...)
func (x *Unit) specialRecv(st *State, sel *ast.SelectorExpr, fn *types.Func) *preparedCall {
	rt := x.typeOf(sel.X)
	if rt == nil {
		return nil
	}
	if p, ok := rt.Underlying().(*types.Pointer); ok {
		rt = p.Elem()
	}
	if !isSyncType(rt) {
		return nil
	}
	tn := types.Unalias(rt).(*types.Named).Obj().Name()
	if tn != "Mutex" && tn != "RWMutex" && tn != "Map" {
		return nil
	}
	inner, ok := ast.Unparen(sel.X).(*ast.SelectorExpr)
	if !ok {
		x.fail(sel, "sync.%s must be a struct field accessed as owner.field", tn)
	}
	ot := x.typeOf(inner.X)
	op, ok := ot.Underlying().(*types.Pointer)
	if !ok {
		x.fail(sel, "sync.%s owner must be a pointer", tn)
	}
	base := x.eval(st, inner.X)
	x.derefCheck(st, base, sel, "owner of "+inner.Sel.Name)
	return &preparedCall{kind: "special", special: "sync." + tn + "." + fn.Name(), base: &base, baseT: op.Elem(), field: inner.Sel.Name}
}

// atomicCall recognises sync/atomic functions on &owner.field.
func (x *Unit) atomicCall(st *State, pc *preparedCall, e *ast.CallExpr, fn *types.Func) bool {
	if fn.Pkg() == nil || fn.Pkg().Path() != "sync/atomic" {
		return false
	}
	if len(e.Args) == 0 {
		return false
	}
	u, ok := ast.Unparen(e.Args[0]).(*ast.UnaryExpr)
	if !ok || u.Op != token.AND {
		x.fail(e, "atomic operation on unsupported address expression")
	}
	switch a := ast.Unparen(u.X).(type) {
	case *ast.SelectorExpr:
		if s, ok := x.info.Selections[a]; ok && s.Kind() == types.FieldVal {
			ot := x.typeOf(a.X)
			op, ok := ot.Underlying().(*types.Pointer)
			if !ok {
				x.fail(e, "atomic field owner must be a pointer")
			}
			base := x.eval(st, a.X)
			x.derefCheck(st, base, e, "owner of atomic field")
			pc.kind, pc.special, pc.base, pc.baseT, pc.field = "special", "atomic."+fn.Name(), &base, op.Elem(), a.Sel.Name
		} else if v, ok := x.info.ObjectOf(a.Sel).(*types.Var); ok {
			pc.kind, pc.special, pc.field = "special", "atomicG."+fn.Name(), x.globalComp(v)
		}
	case *ast.Ident:
		v, ok := x.info.ObjectOf(a).(*types.Var)
		if !ok || !x.isPkgLevel(v) {
			x.fail(e, "atomic operation on local variable")
		}
		pc.kind, pc.special, pc.field = "special", "atomicG."+fn.Name(), x.globalComp(v)
	default:
		x.fail(e, "atomic operation on unsupported address expression")
	}
	for _, a := range e.Args[1:] {
		pc.args = append(pc.args, x.eval(st, a))
	}
	return true
}

func (x *Unit) guardedComps(structT types.Type, mutex string) []string {
	var out []string
	tn := recvTypeName(structT)
	for _, fd := range x.fieldDecls {
		if fd.Type == tn && fd.Discipline == "guarded_by" && fd.Mutex == mutex {
			comp, _, _ := x.fieldComp(structT, fd.Field)
			out = append(out, comp)
			if fd.Contents != "" {
				t := x.resolveType(fd.Contents, x.FU.Body)
				switch ut := t.Underlying().(type) {
				case *types.Map:
					d, v, c, _, _ := x.mapComps(ut)
					out = append(out, d, v, c)
				}
			}
		}
	}
	return out
}

func (x *Unit) specialCall(st *State, pc *preparedCall) []Term {
	x.regComp("$nlocks", SInt)
	sp := pc.special
	externalSpecsUsed[strings.SplitN(sp, ".", 3)[0]+"."+strings.SplitN(sp, ".", 3)[1]] = "modelled"
	switch {
	case strings.HasPrefix(sp, "sync.Mutex.") || strings.HasPrefix(sp, "sync.RWMutex."):
		lc := x.lockComp(pc.baseT, pc.field)
		cur := Select(x.get(st, lc), *pc.base)
		nl := x.get(st, "$nlocks")
		m := sp[strings.LastIndex(sp, ".")+1:]
		switch m {
		case "Lock", "RLock":
			x.oblige(st, "locknest", x.safetyLabel(recvTypeName(pc.baseT)+"."+pc.field+"."+m), x.concTagsLock(), Eq(cur, T("0", SInt)), "lock not already held by this frame (self-deadlock)", pc.node)
			if x.mode == "conc" {
				x.oblige(st, "locknest", x.safetyLabel("single-lock"), x.concTagsLock(), Eq(nl, T("0", SInt)), "no other lock held while acquiring "+pc.field, pc.node)
				// monitor rule: state guarded by this mutex may have been changed by other goroutines
				pre := st.clone()
				for _, c := range x.guardedComps(pc.baseT, pc.field) {
					x.havocComp(st, c)
				}
				x.assumeRelies(st, pre)
				for _, inv := range x.lockInvs(pc.baseT, pc.field) {
					env := &specEnv{x: x, cur: st, old: pre, names: map[string]Term{"self": *pc.base}, noLocals: true}
					x.assume(st, env.boolOf(inv.Expr))
				}
			}
			v := "2"
			if m == "RLock" {
				v = "1"
			}
			x.set(st, lc, Store(x.get(st, lc), *pc.base, T(v, SInt)))
			x.set(st, "$nlocks", T("(+ "+nl.S+" 1)", SInt))
		case "Unlock", "RUnlock":
			want := "2"
			if m == "RUnlock" {
				want = "1"
			}
			x.oblige(st, "locknest", x.safetyLabel(recvTypeName(pc.baseT)+"."+pc.field+"."+m), x.concTagsLock(), Eq(cur, T(want, SInt)), "unlock of a lock held in the matching mode", pc.node)
			if x.mode == "conc" && m == "Unlock" {
				for _, inv := range x.lockInvs(pc.baseT, pc.field) {
					env := &specEnv{x: x, cur: st, old: x.entry, names: map[string]Term{"self": *pc.base}, noLocals: true}
					x.oblige(st, "lockinv", x.safetyLabel(recvTypeName(pc.baseT)+"."+pc.field+"."+inv.Label), x.tagsOrDefault(inv.Tags), env.boolOf(inv.Expr), inv.Src, pc.node)
				}
			}
			x.set(st, lc, Store(x.get(st, lc), *pc.base, T("0", SInt)))
			x.set(st, "$nlocks", T("(- "+nl.S+" 1)", SInt))
		default:
			x.fail(pc.node, "unsupported mutex method %s", m)
		}
		x.traceEvent(st, recvTypeName(pc.baseT)+"."+pc.field+"."+m, []Term{*pc.base}, nil)
		return nil
	case strings.HasPrefix(sp, "sync.Map."):
		mt := types.NewMap(types.NewInterfaceType(nil, nil), types.NewInterfaceType(nil, nil))
		comp := x.regComp("F:"+recvTypeName(pc.baseT)+"."+pc.field, x.U.arraySort(SInt, SInt))
		if x.mode == "conc" {
			// other goroutines may have changed the table since we last looked
			pre := st.clone()
			d, v, c, _, _ := x.mapComps(mt)
			x.havocComp(st, d)
			x.havocComp(st, v)
			x.havocComp(st, c)
			x.assumeRelies(st, pre)
		}
		m := Select(x.get(st, comp), *pc.base)
		x.assumeOnce("(forall ((bv!o Int)) (! (> (select " + x.initial(comp, 0).S + " bv!o) 0) :pattern ((select " + x.initial(comp, 0).S + " bv!o))))")
		x.assume(st, T("(> "+m.S+" 0)", SBool))
		meth := sp[strings.LastIndex(sp, ".")+1:]
		switch meth {
		case "Load":
			v, ok := x.mapLoad(st, mt, m, pc.args[0])
			x.traceEvent(st, recvTypeName(pc.baseT)+"."+pc.field+".Load", []Term{*pc.base, pc.args[0]}, []Term{v, ok})
			return []Term{v, ok}
		case "Store":
			x.mapStore(st, mt, m, pc.args[0], pc.args[1])
			x.traceEvent(st, recvTypeName(pc.baseT)+"."+pc.field+".Store", []Term{*pc.base, pc.args[0], pc.args[1]}, nil)
			return nil
		case "Delete":
			x.mapDelete(st, mt, m, pc.args[0])
			x.traceEvent(st, recvTypeName(pc.baseT)+"."+pc.field+".Delete", []Term{*pc.base, pc.args[0]}, nil)
			return nil
		}
		x.fail(pc.node, "unsupported sync.Map method %s", meth)
	case strings.HasPrefix(sp, "atomic.") || strings.HasPrefix(sp, "atomicG."):
		var comp string
		var idx *Term
		if strings.HasPrefix(sp, "atomic.") {
			comp, _, _ = x.fieldComp(pc.baseT, pc.field)
			idx = pc.base
			if x.mode == "conc" {
				// an atomic field can be changed by others at any time (subject to rely conditions)
				fresh := T("(> "+pc.base.S+" "+x.initial("alloc", 0).S+")", SBool)
				_ = fresh
				pre := st.clone()
				x.havocComp(st, comp)
				x.assumeRelies(st, pre)
			}
		} else {
			comp = pc.field
		}
		rd := func() Term {
			if idx != nil {
				return Select(x.get(st, comp), *idx)
			}
			return x.get(st, comp)
		}
		wr := func(v Term) {
			if idx != nil {
				x.set(st, comp, Store(x.get(st, comp), *idx, v))
			} else {
				x.set(st, comp, v)
			}
		}
		op := sp[strings.Index(sp, ".")+1:]
		switch {
		case strings.HasPrefix(op, "Load"):
			v := rd()
			v.Sort = SInt
			r := x.define("aload", v)
			x.traceEvent(st, "atomic.Load:"+pc.field, nil, []Term{r})
			return []Term{r}
		case strings.HasPrefix(op, "Store"):
			wr(pc.args[0])
			x.traceEvent(st, "atomic.Store:"+pc.field, []Term{pc.args[0]}, nil)
			return nil
		case strings.HasPrefix(op, "Add"):
			nv := x.define("aadd", T("(+ "+rd().S+" "+pc.args[0].S+")", SInt))
			wr(nv)
			x.traceEvent(st, "atomic.Add:"+pc.field, nil, []Term{nv})
			return []Term{nv}
		case strings.HasPrefix(op, "CompareAndSwap"):
			ok := x.define("cas", Eq(rd(), pc.args[0]))
			wr(Ite(ok, pc.args[1], rd()))
			x.traceEvent(st, "atomic.CAS:"+pc.field, nil, []Term{ok})
			return []Term{ok}
		}
		x.fail(pc.node, "unsupported atomic op %s", op)
	}
	x.fail(pc.node, "unsupported special call %s", sp)
	return nil
}

func (x *Unit) concTagsLock() []string { return []string{"C09"} }

// pure external functions: modelled as uninterpreted functions of their arguments
func isPureExternal(full string) bool {
	for _, p := range []string{"(reflect.Type).", "(reflect.Value).Kind", "(reflect.Value).IsValid", "(reflect.Value).IsNil", "(reflect.Value).Type", "(reflect.Value).Interface",
		"(reflect.Value).Elem", "(reflect.Value).Field", "(reflect.Value).Pointer", "(reflect.Value).CanSet", "(reflect.Value).CanAddr", "(reflect.Value).Index", "(reflect.Value).Len", "(reflect.Value).NumField",
		"reflect.TypeOf", "reflect.ValueOf", "reflect.PointerTo", "reflect.PtrTo", "reflect.Zero", "(reflect.StructTag).", "(reflect.StructField).", "(reflect.Kind).",
		"strconv.", "strings.", "fmt.Sprintf", "fmt.Sprint", "(reflect.Method).", "(*reflect.rtype).", "(context.Context).Value", "(context.Context).Err", "(context.Context).Done",
		"(error).Error", "errors.Is", "errors.As", "errors.Unwrap", "(time.Duration).", "runtime/debug.Stack", "(*strings.Builder).", "(*bytes.Buffer).", "bytes.NewBufferString"} {
		if strings.HasPrefix(full, p) {
			return true
		}
	}
	return false
}

func (x *Unit) externalCall(st *State, pc *preparedCall) []Term {
	full := pc.fn.FullName()
	externalSpecsUsed[full] = "external"
	var targs []Term
	if pc.recv != nil {
		targs = append(targs, *pc.recv)
	}
	targs = append(targs, pc.args...)
	nres := pc.sig.Results().Len()
	resT := func(i int) types.Type { return pc.sig.Results().At(i).Type() }
	switch full {
	case "errors.As":
		// errors.As(err, &target): target receives an arbitrary value of its type when the result is true
		ok := x.freshVal("errorsAs", SBool, nil)
		if u, isU := ast.Unparen(pc.call.Args[1]).(*ast.UnaryExpr); isU && u.Op == token.AND {
			if id, isId := ast.Unparen(u.X).(*ast.Ident); isId {
				if v, isV := x.info.ObjectOf(id).(*types.Var); isV {
					nv := x.freshVal(v.Name(), x.U.SortOf(v.Type()), v.Type())
					if nv.Sort == SInt {
						x.assume(st, Implies(ok, Not(Eq(nv, T("0", SInt)))))
						x.regComp("alloc", SInt)
						x.assume(st, T("(<= "+nv.S+" "+x.get(st, "alloc").S+")", SBool))
					}
					cur := x.readVar(st, v)
					r := Ite(ok, nv, cur)
					r.Sort, r.GoT = nv.Sort, v.Type()
					x.writeVar(st, v, r)
				}
			}
		}
		return []Term{ok}
	case "fmt.Errorf", "errors.New":
		r := x.freshVal("err", SIface, resT(0))
		x.assume(st, Not(x.U.IsNilIface(r)))
		// fresh error: distinct from every sentinel; wraps the %w arguments
		x.newErrs = append(x.newErrs, r)
		if full == "fmt.Errorf" && len(pc.args) >= 2 {
			wr := x.U.Fun("wraps", []*Sort{SIface, SIface}, SBool)
			// variadic tail packed as slice: args[1]
			va := pc.args[1]
			if n := len(pc.call.Args) - 1; n > 0 && pc.call.Ellipsis == token.NoPos {
				for i := 0; i < n; i++ {
					if types.IsInterface(x.typeOf(pc.call.Args[1+i])) {
						el := Select(x.U.SliceArr(va), IntLit(int64(i)))
						x.assume(st, T("("+wr+" "+r.S+" "+el.S+")", SBool))
					}
				}
			}
		}
		x.U.Fun("wraps", []*Sort{SIface, SIface}, SBool)
		return []Term{r}
	case "errors.Join":
		// nil iff every argument is nil; otherwise a fresh error that wraps every non-nil argument
		r := x.freshVal("err", SIface, resT(0))
		wr := x.U.Fun("wraps", []*Sort{SIface, SIface}, SBool)
		va := pc.args[0]
		n := len(pc.call.Args)
		if pc.call.Ellipsis != token.NoPos {
			x.fail(pc.node, "errors.Join with a spread slice")
		}
		allNil := True
		for i := 0; i < n; i++ {
			el := Select(x.U.SliceArr(va), IntLit(int64(i)))
			allNil = And(allNil, x.U.IsNilIface(el))
			x.assume(st, Implies(Not(x.U.IsNilIface(el)), T("("+wr+" "+r.S+" "+el.S+")", SBool)))
		}
		x.assume(st, Eq(x.U.IsNilIface(r), allNil))
		x.newErrs = append(x.newErrs, r)
		return []Term{r}
	case "context.Background", "context.TODO":
		c := x.U.Const("ctx.Background", SIface)
		x.assumeOnce("(not ((_ is nilI) ctx.Background))")
		c.GoT = resT(0)
		return []Term{c}
	case "context.WithCancel", "context.WithTimeout", "context.WithDeadline":
		nc := x.freshVal("ctx", SIface, resT(0))
		cancel := x.alloc(st)
		cancel.GoT = resT(1)
		x.assume(st, Not(x.U.IsNilIface(nc)))
		par := x.U.Fun("ctx.parent", []*Sort{SIface}, SIface)
		cof := x.U.Fun("ctx.cancelFn", []*Sort{SIface}, SInt)
		x.assume(st, T("(= ("+par+" "+nc.S+") "+pc.args[0].S+")", SBool))
		x.assume(st, T("(= ("+cof+" "+nc.S+") "+cancel.S+")", SBool))
		// values are inherited
		cv := x.U.Fun("ctx.value", []*Sort{SIface, SIface}, SIface)
		x.assume(st, T(fmt.Sprintf("(forall ((bv!k Iface)) (! (= (%s %s bv!k) (%s %s bv!k)) :pattern ((%s %s bv!k))))", cv, nc.S, cv, pc.args[0].S, cv, nc.S), SBool))
		x.newCtxs = append(x.newCtxs, nc)
		return []Term{nc, cancel}
	case "context.WithValue":
		nc := x.freshVal("ctx", SIface, resT(0))
		x.assume(st, Not(x.U.IsNilIface(nc)))
		par := x.U.Fun("ctx.parent", []*Sort{SIface}, SIface)
		cv := x.U.Fun("ctx.value", []*Sort{SIface, SIface}, SIface)
		x.assume(st, T("(= ("+par+" "+nc.S+") "+pc.args[0].S+")", SBool))
		x.assume(st, T(fmt.Sprintf("(forall ((bv!k Iface)) (! (= (%s %s bv!k) (ite (= bv!k %s) %s (%s %s bv!k))) :pattern ((%s %s bv!k))))", cv, nc.S, pc.args[1].S, pc.args[2].S, cv, pc.args[0].S, cv, nc.S), SBool))
		x.newCtxs = append(x.newCtxs, nc)
		return []Term{nc}
	case "(context.Context).Value":
		cv := x.U.Fun("ctx.value", []*Sort{SIface, SIface}, SIface)
		x.derefIface(st, *pc.recv, pc.node)
		return []Term{TG("("+cv+" "+pc.recv.S+" "+pc.args[0].S+")", SIface, resT(0))}
	case "(reflect.Value).Call", "(reflect.Value).CallSlice":
		// user constructor runs here: arbitrary code (CallSlice is the same invocation, for a variadic function whose last
		// argument is already the slice); both are the trace event "the function value is invoked"
		pc.name = "reflect.Value.Call"
		return x.defaultDynamic(st, pc)
	case "(reflect.Value).Set":
		x.traceEvent(st, "reflect.Value.Set", targs, nil)
		return nil
	case "log/slog.Error", "log/slog.Info", "log/slog.Warn", "net/http.Error":
		return nil
	}
	if isPureExternal(full) {
		if pc.recv != nil && pc.recv.Sort == SIface {
			x.derefIface(st, *pc.recv, pc.node)
		}
		if full == "(reflect.Value).IsNil" && x.safetyOn() {
			// reflect precondition: IsNil panics unless the kind is chan, func, interface, map, pointer, slice or unsafe pointer
			k := x.U.Fun(q("ext:(reflect.Value).Kind"), []*Sort{pc.recv.Sort}, SInt)
			kind := "(" + k + " " + pc.recv.S + ")"
			var alts []Term
			for _, kv := range []int{18, 19, 20, 21, 22, 23, 26} { // reflect.Chan, Func, Interface, Map, Pointer, Slice, UnsafePointer
				alts = append(alts, T(fmt.Sprintf("(= %s %d)", kind, kv), SBool))
			}
			x.oblige(st, "safety", x.safetyLabel("reflect-IsNil-kind"), x.safetyTags(), Or(alts...), "reflect.Value.IsNil is only called on nillable kinds", pc.node)
		}
		var rets []Term
		for i := 0; i < nres; i++ {
			rs := x.U.SortOf(resT(i))
			var as []*Sort
			for _, a := range targs {
				as = append(as, a.Sort)
			}
			name := q(fmt.Sprintf("ext:%s/%d", full, i))
			if i == 0 {
				name = q("ext:" + full)
			}
			f := x.U.Fun(name, as, rs)
			r := App(f, rs, targs...)
			r.GoT = resT(i)
			if rs.Kind == KSlice {
				r = x.define("ext", r)
				r.Sort = rs
				x.typeInv(r)
			}
			rets = append(rets, r)
		}
		// facts about a few reflect observers (part of the trusted external model)
		switch full {
		case "reflect.TypeOf":
			x.assume(st, Implies(Not(x.U.IsNilIface(targs[0])), Not(x.U.IsNilIface(rets[0]))))
		case "(reflect.Type).Field":
			if rets[0].Sort.Kind == KStruct && rets[0].Sort.fieldIndex("Type") >= 0 {
				x.assume(st, Not(x.U.IsNilIface(x.U.StructGet(rets[0], "Type"))))
			}
		case "(reflect.Type).Elem", "reflect.PointerTo", "(reflect.Value).Type":
			if rets[0].Sort == SIface {
				x.assume(st, Not(x.U.IsNilIface(rets[0])))
			}
		case "(reflect.Value).Interface":
			// Interface() yields the nil interface only for a Value of kind Interface that holds nil (a nil pointer, map, ...
			// comes back as a typed nil, i.e. a non-nil interface value)
			if rets[0].Sort == SIface && len(targs) == 1 {
				k := x.U.Fun(q("ext:(reflect.Value).Kind"), []*Sort{targs[0].Sort}, SInt)
				n := x.U.Fun(q("ext:(reflect.Value).IsNil"), []*Sort{targs[0].Sort}, SBool)
				x.assume(st, Implies(x.U.IsNilIface(rets[0]), And(T("(= ("+k+" "+targs[0].S+") 20)", SBool), T("("+n+" "+targs[0].S+")", SBool))))
			}
		}
		return rets
	}
	// unknown external function: no effect on the modelled heap, arbitrary results; may run user code only if it takes function/interface arguments
	x.abstractions["external call "+full+": results unconstrained, no effect on godi state"] = true
	rets := x.freshResults(pc.sig, full)
	x.traceEvent(st, full, targs, rets)
	return rets
}

func (x *Unit) lockInvs(t types.Type, mutex string) []*Clause {
	var out []*Clause
	key := recvTypeName(t) + "." + mutex
	for _, cs := range x.P.Contracts {
		out = append(out, cs.LockInvs[key]...)
	}
	return out
}

func (x *Unit) tagsOrDefault(tags []string) []string {
	if len(tags) > 0 {
		return tags
	}
	return []string{"C09"}
}
