package main

// Calls: builtins, externals, contracts (modular), inlining, dynamic calls, traces, defers, locks.

import (
	"fmt"
	"os"
	"go/ast"
	"go/token"
	"go/types"
	"sort"
	"strings"
)

type preparedCall struct {
	kind     string // builtin | conv | contract | inline | external | dynamic | lit
	name     string // canonical callee name (trace key)
	call     *ast.CallExpr
	recv     *Term
	recvT    types.Type
	args     []Term
	argTs    []types.Type
	sig      *types.Signature
	fn       *types.Func
	unit     *FuncUnit
	contract *FuncContract
	lit      *ast.FuncLit
	fnTerm   *Term
	special  string
	base     *Term // for mutex / sync.Map / atomic: owning object ref
	baseT    types.Type
	field    string
	node     ast.Node
}

func (x *Unit) call(st *State, e *ast.CallExpr) []Term {
	pc := x.prepareCall(st, e)
	return x.finishCall(st, pc)
}

func (x *Unit) calleeObj(e *ast.CallExpr) types.Object {
	switch f := ast.Unparen(e.Fun).(type) {
	case *ast.Ident:
		return x.info.ObjectOf(f)
	case *ast.SelectorExpr:
		return x.info.ObjectOf(f.Sel)
	case *ast.IndexExpr:
		switch g := ast.Unparen(f.X).(type) {
		case *ast.Ident:
			return x.info.ObjectOf(g)
		case *ast.SelectorExpr:
			return x.info.ObjectOf(g.Sel)
		}
	case *ast.IndexListExpr:
		switch g := ast.Unparen(f.X).(type) {
		case *ast.Ident:
			return x.info.ObjectOf(g)
		case *ast.SelectorExpr:
			return x.info.ObjectOf(g.Sel)
		}
	}
	return nil
}

func (x *Unit) evalArgs(st *State, e *ast.CallExpr, sig *types.Signature) ([]Term, []types.Type) {
	var args []Term
	var ats []types.Type
	params := sig.Params()
	np := params.Len()
	// f(g()) multi-value forwarding
	if len(e.Args) == 1 && np > 1 {
		if c, ok := ast.Unparen(e.Args[0]).(*ast.CallExpr); ok {
			if tup, ok := x.typeOf(c).(*types.Tuple); ok && tup.Len() == np {
				vals := x.call(st, c)
				for i, v := range vals {
					args = append(args, x.conv(v, tup.At(i).Type(), params.At(i).Type()))
					ats = append(ats, params.At(i).Type())
				}
				return args, ats
			}
		}
	}
	for i, a := range e.Args {
		var pt types.Type
		if sig.Variadic() && i >= np-1 {
			if e.Ellipsis != token.NoPos {
				pt = params.At(np - 1).Type()
			} else {
				pt = params.At(np - 1).Type().(*types.Slice).Elem()
			}
		} else if i < np {
			pt = params.At(i).Type()
		}
		var v Term
		if u, ok := ast.Unparen(a).(*ast.UnaryExpr); ok && u.Op == token.AND {
			if _, isId := ast.Unparen(u.X).(*ast.Ident); isId && x.isErrorsAs(e) {
				v = TG("nilI", SIface, pt) // placeholder: handled by the errors.As model
				args = append(args, v)
				ats = append(ats, pt)
				continue
			}
		}
		v = x.conv(x.evalNilAware(st, a, pt), x.typeOf(a), pt)
		args = append(args, v)
		ats = append(ats, pt)
	}
	if sig.Variadic() && e.Ellipsis == token.NoPos {
		// pack variadic tail into a slice
		vt := params.At(np - 1).Type().(*types.Slice)
		ss := x.U.SortOf(vt)
		tail := args[np-1:]
		arr := x.U.Const(q("emptyarr<"+strings.Trim(ss.Elem.Name, "|")+">"), x.U.arraySort(SInt, ss.Elem))
		for i, t := range tail {
			arr = Store(arr, IntLit(int64(i)), t)
		}
		var sl Term
		if len(tail) == 0 {
			sl = x.U.Zero(ss)
		} else {
			sl = x.define("varargs", x.U.SliceMk(ss, False, IntLit(int64(len(tail))), arr))
		}
		sl.GoT = vt
		args = append(args[:np-1:np-1], sl)
		ats = append(ats[:np-1:np-1], vt)
	}
	return args, ats
}

func (x *Unit) prepareCall(st *State, e *ast.CallExpr) *preparedCall {
	pc := &preparedCall{call: e, node: e}
	// conversion?
	if tv, ok := x.info.Types[e.Fun]; ok && tv.IsType() {
		pc.kind = "conv"
		return pc
	}
	obj := x.calleeObj(e)
	if b, ok := obj.(*types.Builtin); ok {
		pc.kind = "builtin"
		pc.name = b.Name()
		return pc
	}
	// immediately-invoked function literal
	if fl, ok := ast.Unparen(e.Fun).(*ast.FuncLit); ok {
		pc.kind = "lit"
		pc.lit = fl
		pc.sig = x.typeOf(fl).(*types.Signature)
		pc.args, pc.argTs = x.evalArgs(st, e, pc.sig)
		return pc
	}
	if fn, ok := obj.(*types.Func); ok {
		sig := fn.Type().(*types.Signature)
		if isig, ok := x.typeOf(e.Fun).(*types.Signature); ok {
			// instantiated signature for generics
			if isig.Recv() == nil && sig.TypeParams().Len() > 0 {
				sig = isig
			}
		}
		pc.fn = fn.Origin()
		pc.sig = sig
		full := fn.Origin().FullName()
		pc.name = full
		// receiver
		if sel, ok := ast.Unparen(e.Fun).(*ast.SelectorExpr); ok {
			if s, ok := x.info.Selections[sel]; ok && s.Kind() == types.MethodVal {
				pc.recvT = x.typeOf(sel.X)
				// special receivers (mutex, sync.Map) are addressed through their owner
				if sp := x.specialRecv(st, sel, fn); sp != nil {
					sp.call, sp.node, sp.fn, sp.sig, sp.name = e, e, pc.fn, sig, full
					sp.args, sp.argTs = x.evalArgs(st, e, sig)
					return sp
				}
				rv := x.eval(st, sel.X)
				// implicit address-of / deref for method receivers
				rsig := fn.Type().(*types.Signature)
				if rsig.Recv() != nil {
					_, wantPtr := rsig.Recv().Type().(*types.Pointer)
					_, havePtr := pc.recvT.Underlying().(*types.Pointer)
					if havePtr && !wantPtr && !types.IsInterface(rsig.Recv().Type()) && !types.IsInterface(pc.recvT) {
						rv = x.loadStruct(st, rv, pc.recvT.Underlying().(*types.Pointer).Elem(), sel)
						pc.recvT = pc.recvT.Underlying().(*types.Pointer).Elem()
					}
				}
				// promoted methods through embedded fields: walk the path
				if len(s.Index()) > 1 {
					x.fail(e, "method call through embedded field")
				}
				pc.recv = &rv
			}
		}
		if pc.recv == nil && x.atomicCall(st, pc, e, fn) {
			return pc
		}
		pc.args, pc.argTs = x.evalArgs(st, e, sig)
		// interface method?
		if rs := fn.Type().(*types.Signature).Recv(); rs != nil && types.IsInterface(rs.Type()) {
			pc.kind = "dynamic"
			pc.name = recvTypeName(rs.Type()) + "." + fn.Name()
			if pc.recvT != nil {
				// name by the static interface type of the receiver expression when it is a named interface
				if n, ok := types.Unalias(pc.recvT).(*types.Named); ok {
					pc.name = n.Obj().Name() + "." + fn.Name()
					if n.Obj().Pkg() != nil && n.Obj().Pkg().Path() != x.pkg.PkgPath {
						pc.name = n.Obj().Pkg().Name() + "." + pc.name
					}
				}
			}
			pc.contract = x.lookupDynContract(pc.name, fn.Name(), pc.recvT)
			if pc.contract == nil && (isPureExternal(fn.FullName()) || isKnownExternal(fn.FullName())) {
				pc.kind = "external"
			}
			return pc
		}
		if fn.Pkg() != nil {
			if u := x.P.ByObj[pc.fn]; u != nil {
				pc.unit = u
				pc.name = u.Name
				if fn.Pkg().Path() != x.pkg.PkgPath {
					pc.name = fn.Pkg().Name() + "." + u.Name
				}
				if u.Contract != nil && !u.Contract.Inline {
					pc.kind = "contract"
					pc.contract = u.Contract
				} else {
					pc.kind = "inline"
				}
				return pc
			}
		}
		pc.kind = "external"
		// externals (framework functions) may be given an assumed contract by name: <pkg>.<Type>.<Method> or <pkg>.<Func>
		if fn.Pkg() != nil {
			cname := fn.Pkg().Name() + "." + fn.Name()
			if rs := fn.Type().(*types.Signature).Recv(); rs != nil {
				cname = fn.Pkg().Name() + "." + recvTypeName(rs.Type()) + "." + fn.Name()
			}
			if c := x.lookupDynContract(cname, "", nil); c != nil {
				pc.kind = "contract"
				pc.contract = c
				pc.name = cname
			}
		}
		return pc
	}
	// call of a function-typed value
	ft := x.typeOf(e.Fun)
	sig, ok := ft.Underlying().(*types.Signature)
	if !ok {
		x.fail(e, "call of non-function")
	}
	pc.sig = sig
	// local variable bound once to a literal: inline
	if id, ok := ast.Unparen(e.Fun).(*ast.Ident); ok {
		if v, ok := x.info.ObjectOf(id).(*types.Var); ok {
			if fl, ok := x.closureBind[v]; ok {
				pc.kind = "lit"
				pc.lit = fl
				pc.args, pc.argTs = x.evalArgs(st, e, sig)
				return pc
			}
		}
	}
	fv := x.eval(st, e.Fun)
	pc.fnTerm = &fv
	pc.args, pc.argTs = x.evalArgs(st, e, sig)
	pc.kind = "dynamic"
	pc.name = x.dynName(e.Fun, ft)
	pc.contract = x.lookupDynContract(pc.name, "", ft)
	return pc
}

// dynName names a call through a function value: by struct field ("field:Config.ErrorHandler"), else by type ("fn:<type>").
func (x *Unit) dynName(fun ast.Expr, ft types.Type) string {
	if sel, ok := ast.Unparen(fun).(*ast.SelectorExpr); ok {
		if s, ok := x.info.Selections[sel]; ok && s.Kind() == types.FieldVal {
			return "field:" + recvTypeName(x.typeOf(sel.X)) + "." + sel.Sel.Name
		}
	}
	if n, ok := types.Unalias(ft).(*types.Named); ok {
		return "fn:" + n.Obj().Name()
	}
	if id, ok := ast.Unparen(fun).(*ast.Ident); ok {
		return "fnvar:" + id.Name
	}
	return "fn:" + shortTypeString(ft)
}

func (x *Unit) lookupDynContract(name, method string, t types.Type) *FuncContract {
	if c := x.P.FindContractAnyPkg(x.pkg.PkgPath, name); c != nil {
		return c
	}
	return nil
}

// ---------------------------------------------------------------------------

func (x *Unit) finishCall(st *State, pc *preparedCall) []Term {
	e := pc.call
	saved := x.curCallSite
	if pc.node != nil {
		x.curCallSite = x.P.pos(pc.node) + " " + pc.kind + " " + pc.name
	}
	defer func() { x.curCallSite = saved }()
	switch pc.kind {
	case "conv":
		t := x.typeOf(e.Fun)
		if len(e.Args) != 1 {
			x.fail(e, "bad conversion")
		}
		at := x.typeOf(e.Args[0])
		v := x.evalNilAware(st, e.Args[0], t)
		ts := x.U.SortOf(t)
		if v.Sort == ts || ts == SIface {
			r := x.conv(v, at, t)
			r.GoT = t
			return []Term{r}
		}
		// string(x) etc: uninterpreted
		f := x.U.Fun(q("conv<"+shortTypeString(at)+"→"+shortTypeString(t)+">"), []*Sort{v.Sort}, ts)
		return []Term{TG("("+f+" "+v.S+")", ts, t)}
	case "builtin":
		return x.builtin(st, pc)
	case "lit":
		if x.litActive == nil {
			x.litActive = map[*ast.FuncLit]int{}
		}
		if x.litActive[pc.lit] >= 1 {
			return x.recursiveLit(st, pc)
		}
		x.litActive[pc.lit]++
		defer func() { x.litActive[pc.lit]-- }()
		return x.inlineBody(st, pc.lit.Body, pc.lit.Type, pc.sig, nil, nil, pc.args, pc.call, false)
	case "special":
		return x.specialCall(st, pc)
	case "inline":
		return x.inlineUnit(st, pc)
	case "contract":
		return x.applyContract(st, pc)
	case "external":
		return x.externalCall(st, pc)
	case "dynamic":
		if pc.contract != nil {
			return x.applyContract(st, pc)
		}
		return x.defaultDynamic(st, pc)
	}
	x.fail(e, "unhandled call kind %s", pc.kind)
	return nil
}

func (x *Unit) builtin(st *State, pc *preparedCall) []Term {
	e := pc.call
	switch pc.name {
	case "len", "cap":
		at := x.typeOf(e.Args[0])
		v := x.eval(st, e.Args[0])
		switch ut := at.Underlying().(type) {
		case *types.Slice, *types.Array:
			if pc.name == "cap" {
				c := x.freshVal("cap", SInt, types.Typ[types.Int])
				x.assumes = append(x.assumes, "(>= "+c.S+" "+x.U.SliceLen(v).S+")")
				return []Term{c}
			}
			return []Term{TG(x.U.SliceLen(v).S, SInt, types.Typ[types.Int])}
		case *types.Map:
			return []Term{TG(x.mapLen(st, ut, v).S, SInt, types.Typ[types.Int])}
		case *types.Basic:
			f := x.U.Fun("str.len", []*Sort{SStr}, SInt)
			r := TG("("+f+" "+v.S+")", SInt, types.Typ[types.Int])
			x.assumes = append(x.assumes, "(>= "+r.S+" 0)")
			return []Term{r}
		}
		x.fail(e, "len of %s", at)
	case "append":
		st0 := x.typeOf(e.Args[0])
		s := x.evalNilAware(st, e.Args[0], x.typeOf(e))
		sl := st0.Underlying()
		var elemT types.Type
		if ss, ok := sl.(*types.Slice); ok {
			elemT = ss.Elem()
		} else {
			elemT = x.typeOf(e).Underlying().(*types.Slice).Elem()
			s = x.U.Zero(x.U.SortOf(x.typeOf(e)))
		}
		ln := x.U.SliceLen(s)
		arr := x.U.SliceArr(s)
		if e.Ellipsis != token.NoPos {
			o := x.eval(st, e.Args[1])
			if o.Sort != s.Sort {
				x.fail(e, "append of different slice sorts")
			}
			oln := x.U.SliceLen(o)
			na := x.freshVal("apparr", arr.Sort, nil)
			x.assumes = append(x.assumes, fmt.Sprintf("(forall ((bv!i Int)) (! (= (select %s bv!i) (ite (< bv!i %s) (select %s bv!i) (select %s (- bv!i %s)))) :pattern ((select %s bv!i))))",
				na.S, ln.S, arr.S, x.U.SliceArr(o).S, ln.S, na.S))
			r := x.U.SliceMk(s.Sort, And(x.U.SliceNil(s), Eq(oln, T("0", SInt))), T("(+ "+ln.S+" "+oln.S+")", SInt), na)
			r.GoT = x.typeOf(e)
			return []Term{x.define("app", r)}
		}
		n := 0
		for _, a := range e.Args[1:] {
			v := x.conv(x.evalNilAware(st, a, elemT), x.typeOf(a), elemT)
			arr = Store(arr, T("(+ "+ln.S+" "+fmt.Sprint(n)+")", SInt), v)
			n++
		}
		isnil := False
		if n == 0 {
			isnil = x.U.SliceNil(s)
		}
		r := x.U.SliceMk(s.Sort, isnil, T("(+ "+ln.S+" "+fmt.Sprint(n)+")", SInt), arr)
		r.GoT = x.typeOf(e)
		return []Term{x.define("app", r)}
	case "make":
		t := x.typeOf(e.Args[0])
		switch ut := t.Underlying().(type) {
		case *types.Map:
			for _, a := range e.Args[1:] {
				x.eval(st, a)
			}
			return []Term{x.newMap(st, ut)}
		case *types.Slice:
			ss := x.U.SortOf(t)
			ln := x.eval(st, e.Args[1])
			if len(e.Args) > 2 {
				x.eval(st, e.Args[2])
			}
			zarr := T("((as const (Array Int "+ss.Elem.Name+")) "+x.U.Zero(ss.Elem).S+")", x.U.arraySort(SInt, ss.Elem))
			if x.safetyOn() {
				x.oblige(st, "safety", x.safetyLabel("make-len"), x.safetyTags(), T("(>= "+ln.S+" 0)", SBool), "make length non-negative", e)
			}
			r := x.U.SliceMk(ss, False, ln, zarr)
			r.GoT = t
			return []Term{x.define("mk", r)}
		case *types.Chan:
			return []Term{x.alloc(st)}
		}
		x.fail(e, "make of %s", t)
	case "new":
		t := x.typeOf(e.Args[0])
		ref := x.alloc(st)
		if su, ok := t.Underlying().(*types.Struct); ok {
			for j := 0; j < su.NumFields(); j++ {
				f := su.Field(j)
				if isSyncType(f.Type()) {
					x.initSyncField(st, t, f, ref)
					continue
				}
				comp, fs, _ := x.fieldComp(t, f.Name())
				x.set(st, comp, Store(x.get(st, comp), ref, x.U.Zero(fs)))
			}
		} else {
			comp := x.regComp("P:"+shortTypeString(t), x.U.arraySort(SInt, x.U.SortOf(t)))
			x.set(st, comp, Store(x.get(st, comp), ref, x.U.Zero(x.U.SortOf(t))))
		}
		ref.GoT = types.NewPointer(t)
		return []Term{ref}
	case "close":
		// close(ch): a trace event "chan.close" carrying the channel. Closing a nil channel panics (checked); closing a channel
		// twice panics as well, which is NOT tracked here (the contracts count the close events instead).
		ch := x.eval(st, e.Args[0])
		if x.safetyOn() {
			x.oblige(st, "safety", x.safetyLabel("close-nil-chan"), x.safetyTags(), Not(Eq(ch, T("0", SInt))), "closed channel is non-nil", e)
		}
		x.traceEvent(st, "chan.close", []Term{ch}, nil)
		return nil
	case "delete":
		mt := x.typeOf(e.Args[0]).Underlying().(*types.Map)
		m := x.eval(st, e.Args[0])
		x.guardCheckExpr(st, e.Args[0], true)
		k := x.conv(x.eval(st, e.Args[1]), x.typeOf(e.Args[1]), mt.Key())
		x.mapDelete(st, mt, m, k)
		return nil
	case "copy":
		// copy(dst, src): supported when dst is an assignable slice expression and both have value semantics
		d := x.eval(st, e.Args[0])
		s := x.eval(st, e.Args[1])
		if d.Sort != s.Sort {
			x.fail(e, "copy between different slice sorts")
		}
		dl, sl := x.U.SliceLen(d), x.U.SliceLen(s)
		n := x.define("copyN", Ite(T("(< "+dl.S+" "+sl.S+")", SBool), dl, sl))
		na := x.freshVal("cparr", x.U.SliceArr(d).Sort, nil)
		x.assumes = append(x.assumes, fmt.Sprintf("(forall ((bv!i Int)) (! (= (select %s bv!i) (ite (and (<= 0 bv!i) (< bv!i %s)) (select %s bv!i) (select %s bv!i))) :pattern ((select %s bv!i))))",
			na.S, n.S, x.U.SliceArr(s).S, x.U.SliceArr(d).S, na.S))
		nd := x.U.SliceMk(d.Sort, x.U.SliceNil(d), dl, na)
		nd.GoT = d.GoT
		x.assignTo(st, e.Args[0], x.define("cp", nd))
		return []Term{TG(n.S, SInt, types.Typ[types.Int])}
	case "panic":
		v := x.conv(x.eval(st, e.Args[0]), x.typeOf(e.Args[0]), types.NewInterfaceType(nil, nil))
		x.raise(st, v)
		st.pc = False
		return nil
	case "recover":
		x.regComp("$panicking", SBool)
		x.regComp("$panicval", SIface)
		p := x.get(st, "$panicking")
		v := x.get(st, "$panicval")
		r := Ite(p, v, T("nilI", SIface))
		r.Sort = SIface
		r = x.define("recovered", r)
		x.set(st, "$panicking", False)
		return []Term{r}
	case "min", "max":
		a := x.eval(st, e.Args[0])
		b := x.eval(st, e.Args[1])
		op := "<"
		if pc.name == "max" {
			op = ">"
		}
		return []Term{Ite(T("("+op+" "+a.S+" "+b.S+")", SBool), a, b)}
	}
	x.fail(e, "unsupported builtin %s", pc.name)
	return nil
}

// raise records an exceptional exit with panic value v.
func (x *Unit) raise(st *State, v Term) {
	if st.dead() {
		return
	}
	x.regComp("$panicking", SBool)
	x.regComp("$panicval", SIface)
	ps := st.clone()
	x.set(ps, "$panicking", True)
	x.set(ps, "$panicval", v)
	x.fr.panics = append(x.fr.panics, ps)
	if x.curCallSite != "" {
		x.panicSites[x.curCallSite] = true
	}
}

// ---------------------------------------------------------------------------
// traces

func (x *Unit) traceEvent(st *State, key string, args []Term, rets []Term) Term {
	for _, ls := range x.loopStmtStack {
		if x.loopKeys[ls] == nil {
			x.loopKeys[ls] = map[string]bool{}
		}
		x.loopKeys[ls][key] = true
	}
	x.regComp("clk", SInt)
	x.regComp("TL:"+key, SInt)
	x.regComp("TT:"+key, x.U.arraySort(SInt, SInt))
	x.regComp("TP:"+key, x.U.arraySort(SInt, SBool))
	n := x.get(st, "TL:"+key)
	x.set(st, "TP:"+key, Store(x.get(st, "TP:"+key), n, False))
	for i, a := range args {
		c := x.regTraceComp(fmt.Sprintf("TA:%s:%d", key, i), a.Sort)
		if c != "" {
			x.set(st, c, Store(x.get(st, c), n, a))
		}
	}
	for i, r := range rets {
		c := x.regTraceComp(fmt.Sprintf("TR:%s:%d", key, i), r.Sort)
		if c != "" {
			x.set(st, c, Store(x.get(st, c), n, r))
		}
	}
	clk := x.get(st, "clk")
	x.set(st, "TT:"+key, Store(x.get(st, "TT:"+key), n, clk))
	x.set(st, "clk", T("(+ "+clk.S+" 1)", SInt))
	x.set(st, "TL:"+key, T("(+ "+n.S+" 1)", SInt))
	x.callees[key] = true
	return n
}

// raiseFromCall records the exceptional edge of call number n of key: in that state the call is marked as panicked
// (its recorded results are meaningless).
func (x *Unit) raiseFromCall(st *State, key string, n Term, pv Term) {
	if st.dead() {
		return
	}
	// the call either panics or returns: the two continuations are distinguished by a fresh boolean
	b := x.freshVal("panics", SBool, nil)
	ps := x.withCond(st, b)
	x.set(ps, "TP:"+key, Store(x.get(ps, "TP:"+key), n, True))
	// since Go 1.21 recover() never yields nil for a panic (panic(nil) raises *runtime.PanicNilError)
	x.assume(ps, Not(x.U.IsNilIface(pv)))
	x.abstractions["a recovered panic value is never nil (Go >= 1.21: panic(nil) raises *runtime.PanicNilError)"] = true
	x.raise(ps, pv)
	cont := x.withCond(st, Not(b))
	st.pc = cont.pc
}

func (x *Unit) regTraceComp(comp string, s *Sort) string {
	as := x.U.arraySort(SInt, s)
	if old, ok := x.compSorts[comp]; ok && old.Name != as.Name {
		return "" // sort clash (generic instantiations): skip recording this position
	}
	x.regComp(comp, as)
	return comp
}

// ---------------------------------------------------------------------------
// interference (conc mode) and user callbacks

func (x *Unit) interfere(st *State, n ast.Node, why string) {
	x.regComp("$nlocks", SInt)
	if x.mode == "conc" {
		x.oblige(st, "locknest", x.safetyLabel("no-lock-held"), x.concTags(), Eq(x.get(st, "$nlocks"), T("0", SInt)), "no lock held at interference point ("+why+")", n)
	}
	pre := st.clone()
	x.havocAll(st)
	x.assumeRelies(st, pre)
}

func (x *Unit) concTags() []string {
	if x.FU.Contract != nil && len(x.FU.Contract.SafetyTags) > 0 {
		return x.FU.Contract.SafetyTags
	}
	return x.tagsOr(nil)
}

func (x *Unit) assumeRelies(st, pre *State) {
	for _, cs := range x.P.Contracts {
		for _, r := range cs.Relies {
			func() {
				defer func() {
					if rec := recover(); rec != nil {
						if _, ok := rec.(unsupportedErr); ok {
							return
						}
						panic(rec)
					}
				}()
				env := &specEnv{x: x, cur: st, old: pre}
				x.assume(st, env.boolOf(r.Expr))
			}()
		}
	}
}

func (x *Unit) defaultDynamic(st *State, pc *preparedCall) []Term {
	// unknown code: user callback. May panic, may re-enter the container.
	var targs []Term
	if pc.recv != nil {
		targs = append(targs, *pc.recv)
	} else if pc.fnTerm != nil {
		targs = append(targs, *pc.fnTerm)
	}
	targs = append(targs, pc.args...)
	if pc.recv != nil {
		x.derefIface(st, *pc.recv, pc.node)
	} else if pc.fnTerm != nil && x.safetyOn() {
		x.oblige(st, "safety", x.safetyLabel("nil-func-call"), x.safetyTags(), Not(Eq(*pc.fnTerm, T("0", SInt))), "called function value is non-nil", pc.node)
	}
	x.abstractions["dynamic call "+pc.name+": arbitrary user code (may panic, may re-enter)"] = true
	x.interfere(st, pc.node, "call "+pc.name)
	rets := x.freshResults(pc.sig, pc.name)
	x.boundResults(st, pc.sig, rets)
	n := x.traceEvent(st, pc.name, targs, rets)
	// exceptional edge
	pv := x.freshVal("panicval", SIface, nil)
	x.raiseFromCall(st, pc.name, n, pv)
	return rets
}

func (x *Unit) derefIface(st *State, v Term, n ast.Node) {
	if !x.safetyOn() {
		return
	}
	if v.Sort == SIface {
		x.oblige(st, "safety", x.safetyLabel("nil-iface-call"), x.safetyTags(), Not(x.U.IsNilIface(v)), "method call on non-nil interface", n)
	}
}

func (x *Unit) freshResults(sig *types.Signature, name string) []Term {
	var rets []Term
	for i := 0; i < sig.Results().Len(); i++ {
		rt := sig.Results().At(i).Type()
		rets = append(rets, x.freshVal("ret:"+name, x.U.SortOf(rt), rt))
	}
	return rets
}

// boundResults: whatever a call returns refers to objects that exist when it returns (references <= alloc after the call).
func (x *Unit) boundResults(st *State, sig *types.Signature, rets []Term) {
	x.regComp("alloc", SInt)
	alloc := x.get(st, "alloc")
	for i := 0; i < sig.Results().Len() && i < len(rets); i++ {
		if p := x.refBound(rets[i], sig.Results().At(i).Type(), alloc, 0); p != "" {
			x.assume(st, T(p, SBool))
		}
	}
}

// ---------------------------------------------------------------------------
// modular call against a contract

func (x *Unit) contractEnv(st, old *State, pc *preparedCall, rets []Term) *specEnv {
	names := map[string]Term{}
	// parameter names: from declaration if available, else from signature
	bind := func(name string, t Term) {
		if name != "" && name != "_" {
			names[name] = t
		}
	}
	if pc.unit != nil {
		if pc.unit.Recv != nil && len(pc.unit.Recv.List) > 0 && len(pc.unit.Recv.List[0].Names) > 0 && pc.recv != nil {
			bind(pc.unit.Recv.List[0].Names[0].Name, *pc.recv)
		}
		i := 0
		for _, f := range pc.unit.Type.Params.List {
			if len(f.Names) == 0 {
				i++
				continue
			}
			for _, n := range f.Names {
				if i < len(pc.args) {
					bind(n.Name, pc.args[i])
				}
				i++
			}
		}
		if pc.unit.Type.Results != nil {
			j := 0
			for _, f := range pc.unit.Type.Results.List {
				if len(f.Names) == 0 {
					j++
					continue
				}
				for _, n := range f.Names {
					if j < len(rets) {
						bind(n.Name, rets[j])
					}
					j++
				}
			}
		}
	} else if pc.sig != nil {
		for i := 0; i < pc.sig.Params().Len() && i < len(pc.args); i++ {
			bind(pc.sig.Params().At(i).Name(), pc.args[i])
		}
	}
	if pc.recv != nil {
		names["recv"] = *pc.recv
		if _, ok := names["self"]; !ok {
			names["self"] = *pc.recv
		}
	}
	if pc.fnTerm != nil {
		names["fn"] = *pc.fnTerm
	}
	for i, a := range pc.args {
		names[fmt.Sprintf("arg%d", i)] = a
	}
	for i, r := range rets {
		names[fmt.Sprintf("result%d", i)] = r
	}
	if len(rets) > 0 {
		names["result"] = rets[0]
	}
	tp := ""
	if pc.contract != nil {
		tp = pc.contract.Pkg
	}
	return &specEnv{x: x, cur: st, old: old, names: names, noLocals: true, typePkg: tp}
}

func (x *Unit) applyContract(st *State, pc *preparedCall) []Term {
	c := pc.contract
	if pc.recv != nil && pc.kind == "dynamic" {
		x.derefIface(st, *pc.recv, pc.node)
	}
	x.callOrd["call:"+pc.name]++
	ord := x.callOrd["call:"+pc.name]
	// preconditions
	if len(c.Requires) > 0 {
		x.assumeAxioms(st) // axioms read (immutable) heap fields: re-instantiate them for objects allocated since entry
		env := x.contractEnv(st, st, pc, nil)
		for _, r := range c.Requires {
			cond := env.boolOf(r.Expr)
			x.oblige(st, "pre", fmt.Sprintf("%s#%d.%s", pc.name, ord, r.Label), x.tagsOr(r.Tags), cond, r.Src, pc.node)
			x.assume(st, cond)
		}
	}
	if c.NoCheck || (pc.unit == nil) {
		x.trusted[pc.name] = true
	}
	pre := st.clone()
	var targs []Term
	if pc.recv != nil {
		targs = append(targs, *pc.recv)
	} else if pc.fnTerm != nil {
		targs = append(targs, *pc.fnTerm)
	}
	targs = append(targs, pc.args...)
	var rets []Term
	if c.Pure && pc.sig.Results().Len() == 1 {
		// deterministic function of arguments and (for methods on repo types) the heap: uninterpreted over arguments only
		rt := pc.sig.Results().At(0).Type()
		rs := x.U.SortOf(rt)
		var as []*Sort
		for _, a := range targs {
			as = append(as, a.Sort)
		}
		f := x.U.Fun(q("pure:"+x.canonPure(pc.name, x.pkg.PkgPath)), as, rs)
		r := App(f, rs, targs...)
		r.GoT = rt
		r = x.define("pv", r)
		r.Sort = rs
		x.typeInv(r)
		rets = []Term{r}
	} else {
		if c.Interferes {
			x.interfere(st, pc.node, "call "+pc.name)
		} else if c.ModAll {
			x.havocAll(st)
		} else {
			// frame: everything the callee's body can syntactically write (inferred from the real code, transitively),
			// plus whatever the contract declares (needed for callees without a body: interface methods, function values)
			if pc.unit != nil && !c.NoCheck {
				ms := x.unitMods(pc.unit)
				if ms.all {
					x.warn("frame of %s inferred as 'everything' (it calls code without a frame)", pc.name)
					x.havocAll(st)
				} else {
					x.havocModSet(st, ms)
				}
			}
			for _, m := range c.Modifies {
				x.havocNamed(st, m, pc.node)
			}
		}
		rets = x.freshResults(pc.sig, pc.name)
		x.boundResults(st, pc.sig, rets)
	}
	callIdx := x.traceEvent(st, pc.name, targs, rets)
	if len(c.Monitor) > 0 {
		env := x.contractEnv(st, pre, pc, rets)
		for _, en := range c.Monitor {
			x.assumeAs(st, en.Label, env.boolOf(en.Expr))
		}
	}
	// the callee's let-bindings are values of its entry state
	letVals := map[string]Term{}
	if len(c.Lets) > 0 {
		lenv := x.contractEnv(pre, pre, pc, nil)
		for _, l := range c.Lets {
			e, err := ParseSpec(l.Init)
			if err != nil {
				x.fail(pc.node, "%v", err)
			}
			for k, v := range letVals {
				lenv.names[k] = v
			}
			letVals[l.Name] = x.define("let:"+l.Name, lenv.eval(e))
		}
	}
	if len(c.Ensures) > 0 {
		env := x.contractEnv(st, pre, pc, rets)
		for k, v := range letVals {
			env.names[k] = v
		}
		// exported ghosts: their final values are fresh constants the caller can read with ghostof(callee, name)
		for _, gname := range c.Exports {
			for _, g := range c.Ghosts {
				if g.Name == gname {
					env.typePkg = c.Pkg
					so, gt := env.resolveSort(g.Type)
					v := x.freshVal("gout:"+gname, so, gt)
					env.names[gname] = v
					x.lastGhost[pc.name+":"+gname] = v
				}
			}
		}
		for _, en := range c.Ensures {
			if isFrameInternal(en.Expr, c) {
				continue // talks about the callee's own call trace / ghost state: meaningless to the caller
			}
			x.assumeAs(st, en.Label, env.boolOf(en.Expr))
		}
	}
	if c.MayPanic || (c.Interferes && !c.NoPanic) {
		pv := x.freshVal("panicval", SIface, nil)
		if len(c.Panics) > 0 {
			ps := st.clone()
			env := x.contractEnv(ps, pre, pc, rets)
			for _, en := range c.Panics {
				x.assumeAs(ps, en.Label, env.boolOf(en.Expr))
			}
			x.raiseFromCall(ps, pc.name, callIdx, pv)
		} else {
			x.raiseFromCall(st, pc.name, callIdx, pv)
		}
	}
	return rets
}

// havocNamed havocs a component given by contract syntax: "Type.field", "map[K]V", "G:name", "alloc".
func (x *Unit) havocNamed(st *State, m string, n ast.Node) {
	m = strings.TrimSpace(m)
	if strings.HasPrefix(m, "map[") {
		t := x.resolveType(m, n)
		mt, ok := t.Underlying().(*types.Map)
		if !ok {
			x.fail(n, "modifies: %s is not a map type", m)
		}
		d, v, c, _, _ := x.mapComps(mt)
		x.havocComp(st, d)
		x.havocComp(st, v)
		x.havocComp(st, c)
		return
	}
	if m == "alloc" {
		old := x.get(st, "alloc")
		x.havocComp(st, "alloc")
		x.assumes = append(x.assumes, "(>= "+x.get(st, "alloc").S+" "+old.S+")")
		return
	}
	if i := strings.LastIndex(m, "."); i > 0 {
		tn, fld := m[:i], m[i+1:]
		t := x.resolveType(tn, n)
		if fld == "*" {
			su := t.Underlying().(*types.Struct)
			for j := 0; j < su.NumFields(); j++ {
				if !isSyncType(su.Field(j).Type()) {
					comp, _, _ := x.fieldComp(t, su.Field(j).Name())
					x.havocComp(st, comp)
				}
			}
			return
		}
		comp, _, _ := x.fieldComp(t, fld)
		x.havocComp(st, comp)
		return
	}
	x.fail(n, "modifies: cannot resolve %q", m)
}

func (x *Unit) resolveType(s string, n ast.Node) types.Type {
	pos := x.FU.Body.Pos()
	tv, err := types.Eval(x.P.Fset, x.pkg.Types, pos, s)
	if err != nil || !tv.IsType() {
		// try other packages (contracts of callees in other packages)
		for _, pk := range x.P.Pkgs {
			if tv2, err2 := types.Eval(x.P.Fset, pk.Types, token.NoPos, s); err2 == nil && tv2.IsType() {
				return tv2.Type
			}
			for _, f := range pk.Syntax {
				if tv2, err2 := types.Eval(x.P.Fset, pk.Types, f.End()-1, s); err2 == nil && tv2.IsType() {
					return tv2.Type
				}
			}
		}
		x.fail(n, "cannot resolve type %q: %v", s, err)
	}
	return tv.Type
}

// ---------------------------------------------------------------------------
// inlining

func (x *Unit) inlineUnit(st *State, pc *preparedCall) []Term {
	u := pc.unit
	for _, s := range x.inlineStack {
		if s == u {
			x.warn("recursive call to %s without contract: havoc", u.Name)
			return x.defaultDynamic(st, pc)
		}
	}
	if x.inlineDepth >= 6 {
		x.warn("inline depth exceeded at %s: havoc", u.Name)
		return x.defaultDynamic(st, pc)
	}
	if u.Pkg != x.pkg {
		// inlining across packages needs that package's type info
		x.abstractions["inlined "+pc.name+" (no contract)"] = true
	}
	x.inlineStack = append(x.inlineStack, u)
	defer func() { x.inlineStack = x.inlineStack[:len(x.inlineStack)-1] }()
	oldInfo, oldPkg := x.info, x.pkg
	x.info, x.pkg = u.Pkg.TypesInfo, u.Pkg
	defer func() { x.info, x.pkg = oldInfo, oldPkg }()
	return x.inlineBody(st, u.Body, u.Type, pc.sig, u.Recv, pc.recv, pc.args, pc.call, true)
}

func (x *Unit) inlineBody(st *State, body *ast.BlockStmt, ft *ast.FuncType, sig *types.Signature, recvFL *ast.FieldList, recv *Term, args []Term, call ast.Node, isUnit bool) []Term {
	x.inlineDepth++
	defer func() { x.inlineDepth-- }()
	fr := &frame{parent: x.fr}
	// bind receiver & params
	if recvFL != nil && len(recvFL.List) > 0 && len(recvFL.List[0].Names) > 0 && recv != nil {
		if obj, ok := x.info.Defs[recvFL.List[0].Names[0]].(*types.Var); ok {
			st.vars[obj] = *recv
		}
	}
	i := 0
	for _, f := range ft.Params.List {
		if len(f.Names) == 0 {
			i++
			continue
		}
		for _, n := range f.Names {
			if obj, ok := x.info.Defs[n].(*types.Var); ok && i < len(args) {
				t := args[i]
				t.GoT = obj.Type()
				st.vars[obj] = t
			}
			i++
		}
	}
	x.setupResults(st, fr, ft, sig)
	saved := x.fr
	x.fr = fr
	out := x.block(st, body.List)
	if !out.dead() {
		fr.returns = append(fr.returns, out)
	}
	normal, panicking := x.finishFrame(fr)
	x.fr = saved
	// propagate panics to the enclosing frame
	if !panicking.dead() {
		x.fr.panics = append(x.fr.panics, panicking)
	}
	*st = *normal
	var rets []Term
	for j := range fr.results {
		if st.dead() {
			rets = append(rets, x.U.Zero(fr.resSorts[j]))
			continue
		}
		r := st.vars[fr.results[j]]
		r.GoT = fr.resTypes[j]
		rets = append(rets, r)
	}
	return rets
}

func (x *Unit) setupResults(st *State, fr *frame, ft *ast.FuncType, sig *types.Signature) {
	if ft.Results == nil {
		return
	}
	j := 0
	for _, f := range ft.Results.List {
		names := f.Names
		cnt := len(names)
		if cnt == 0 {
			cnt = 1
		}
		for k := 0; k < cnt; k++ {
			rt := sig.Results().At(j).Type()
			rs := x.U.SortOf(rt)
			var obj types.Object
			if len(names) > 0 && names[k].Name != "_" {
				obj = x.info.Defs[names[k]]
			}
			if obj == nil {
				obj = types.NewVar(token.NoPos, nil, fmt.Sprintf("$res%d", j), rt)
			}
			fr.results = append(fr.results, obj)
			fr.resSorts = append(fr.resSorts, rs)
			fr.resTypes = append(fr.resTypes, rt)
			z := x.U.Zero(rs)
			z.GoT = rt
			st.vars[obj] = z
			j++
		}
	}
}

// finishFrame merges exits, runs deferred calls, and splits into normal / panicking states.
func (x *Unit) finishFrame(fr *frame) (*State, *State) {
	x.regComp("$panicking", SBool)
	x.regComp("$panicval", SIface)
	var all []*State
	for _, r := range fr.returns {
		if !r.dead() {
			if _, ok := r.heap["$panicking"]; !ok {
				r.heap["$panicking"] = False
			}
			all = append(all, r)
		}
	}
	all = append(all, fr.panics...)
	if len(fr.defers) == 0 {
		if os.Getenv("GOVC_DEBUG") != "" && fr.unitTop {
			for i, ps := range fr.panics {
				fmt.Fprintf(os.Stderr, "panic state %d: pc=%s dead=%v close=%v\n", i, ps.pc.S, ps.dead(), ps.heap["TL:godi.Scope.Close"].S)
			}
		}
		n := x.merge(fr.returns...)
		p := x.merge(fr.panics...)
		return n, p
	}
	m := x.merge(all...)
	if m.dead() {
		return m, x.deadState()
	}
	for i := len(fr.defers) - 1; i >= 0; i-- {
		d := fr.defers[i]
		flag := x.get(m, fmt.Sprintf("D:%d", d.id))
		run := x.withCond(m, flag)
		skip := x.withCond(m, Not(flag))
		if !run.dead() {
			dfr := &frame{parent: fr, recoverOK: true}
			saved := x.fr
			x.fr = dfr
			x.runDeferred(run, d)
			x.fr = saved
			// panics raised inside the deferred call replace the current panic (rare); treat as panicking exits
			for _, ps := range dfr.panics {
				run = x.merge(run, ps)
			}
		}
		m = x.merge(run, skip)
	}
	p := x.get(m, "$panicking")
	normal := x.withCond(m, Not(p))
	panicking := x.withCond(m, p)
	return normal, panicking
}

func (x *Unit) deferStmt(st *State, s *ast.DeferStmt) *State {
	x.deferCtr++
	d := &deferRec{id: x.deferCtr, call: s.Call}
	comp := x.regComp(fmt.Sprintf("D:%d", d.id), SBool)
	if _, isLit := ast.Unparen(s.Call.Fun).(*ast.FuncLit); !isLit {
		// evaluate callee and arguments now
		d.prep = x.prepareCall(st, s.Call)
		d.prep = x.stashPrepared(st, d)
	}
	x.set(st, comp, True)
	fr := x.fr
	fr.defers = append(fr.defers, d)
	return st
}

// stashPrepared stores evaluated callee/arguments of a deferred call in state components so they merge correctly.
func (x *Unit) stashPrepared(st *State, d *deferRec) *preparedCall {
	p := d.prep
	stash := func(i string, t *Term) {
		if t == nil {
			return
		}
		comp := x.regComp(fmt.Sprintf("DA:%d:%s", d.id, i), t.Sort)
		x.set(st, comp, *t)
	}
	stash("recv", p.recv)
	stash("fn", p.fnTerm)
	stash("base", p.base)
	for i := range p.args {
		stash(fmt.Sprint(i), &p.args[i])
	}
	return p
}

func (x *Unit) runDeferred(st *State, d *deferRec) {
	if fl, ok := ast.Unparen(d.call.Fun).(*ast.FuncLit); ok {
		sig := x.typeOf(fl).(*types.Signature)
		args, _ := x.evalArgs(st, d.call, sig)
		// run inline in the deferred frame (recover allowed)
		saved := x.fr
		x.inlineBodyInFrame(st, fl, sig, args)
		x.fr = saved
		return
	}
	p := *d.prep
	unstash := func(i string, t *Term) *Term {
		if t == nil {
			return nil
		}
		comp := fmt.Sprintf("DA:%d:%s", d.id, i)
		v := x.get(st, comp)
		v.GoT = t.GoT
		return &v
	}
	p.recv = unstash("recv", p.recv)
	p.fnTerm = unstash("fn", p.fnTerm)
	p.base = unstash("base", p.base)
	na := make([]Term, len(p.args))
	for i := range p.args {
		na[i] = *unstash(fmt.Sprint(i), &p.args[i])
	}
	p.args = na
	x.finishCall(st, &p)
}

// inlineBodyInFrame runs a deferred closure; recover() refers to the unit-level panic state.
func (x *Unit) inlineBodyInFrame(st *State, fl *ast.FuncLit, sig *types.Signature, args []Term) {
	x.inlineDepth++
	defer func() { x.inlineDepth-- }()
	fr := &frame{parent: x.fr, recoverOK: true}
	i := 0
	for _, f := range fl.Type.Params.List {
		for _, n := range f.Names {
			if obj, ok := x.info.Defs[n].(*types.Var); ok && i < len(args) {
				st.vars[obj] = args[i]
			}
			i++
		}
	}
	x.setupResults(st, fr, fl.Type, sig)
	outer := x.fr
	x.fr = fr
	out := x.block(st, fl.Body.List)
	if !out.dead() {
		fr.returns = append(fr.returns, out)
	}
	normal, panicking := x.finishFrame(fr)
	x.fr = outer
	if !panicking.dead() {
		outer.panics = append(outer.panics, panicking)
	}
	*st = *normal
}

// ---------------------------------------------------------------------------
// guarded-by checks

func (x *Unit) guardCheck(st *State, base Term, structT types.Type, field string, write bool, n ast.Node) {
	fd, ok := x.fieldDecls[recvTypeName(structT)+"."+field]
	if !ok || x.mode != "conc" {
		return // locking disciplines are checked in the concurrent units only (collection is documented single-goroutine)
	}
	// objects allocated by this frame and not yet published are exempt
	x.regComp("alloc", SInt)
	fresh := T("(> "+base.S+" "+x.initial("alloc", 0).S+")", SBool)
	tags := x.guardTags()
	switch fd.Discipline {
	case "guarded_by":
		lc := x.lockComp(structT, fd.Mutex)
		held := Select(x.get(st, lc), base)
		var c Term
		if write {
			c = Eq(held, T("2", SInt))
		} else {
			c = T("(>= "+held.S+" 1)", SBool)
		}
		what := "read"
		if write {
			what = "write"
		}
		x.oblige(st, "guard", x.safetyLabel(recvTypeName(structT)+"."+field+"."+what), tags, Or(c, fresh), fmt.Sprintf("%s of %s.%s holds %s", what, recvTypeName(structT), field, fd.Mutex), n)
	case "atomic":
		x.oblige(st, "guard", x.safetyLabel(recvTypeName(structT)+"."+field+".atomic"), tags, fresh, fmt.Sprintf("%s.%s accessed only through sync/atomic", recvTypeName(structT), field), n)
	case "immutable":
		if write {
			x.oblige(st, "guard", x.safetyLabel(recvTypeName(structT)+"."+field+".immutable"), tags, fresh, fmt.Sprintf("%s.%s written only before publication", recvTypeName(structT), field), n)
		}
	}
}

func (x *Unit) guardTags() []string {
	return []string{"C09"}
}

// guardCheckExpr: for m[k]=v / delete(m,k) where m is a guarded field selector, require the write lock.
func (x *Unit) guardCheckExpr(st *State, m ast.Expr, write bool) {
	sel, ok := ast.Unparen(m).(*ast.SelectorExpr)
	if !ok {
		return
	}
	s, ok := x.info.Selections[sel]
	if !ok || s.Kind() != types.FieldVal {
		return
	}
	bt := x.typeOf(sel.X)
	p, ok := bt.Underlying().(*types.Pointer)
	if !ok {
		return
	}
	fd, ok := x.fieldDecls[recvTypeName(p.Elem())+"."+sel.Sel.Name]
	if !ok || fd.Discipline != "guarded_by" {
		return
	}
	base := x.eval(st, sel.X)
	x.guardCheck(st, base, p.Elem(), sel.Sel.Name, write, m)
}

// ---------------------------------------------------------------------------
// syntactic modification sets of calls (for loop havoc)

func (x *Unit) compsNamed(m string, n ast.Node, ms *modSet) {
	m = strings.TrimSpace(m)
	if strings.HasPrefix(m, "map[") {
		t := x.resolveType(m, n)
		if mt, ok := t.Underlying().(*types.Map); ok {
			d, v, c, _, _ := x.mapComps(mt)
			ms.comps[d], ms.comps[v], ms.comps[c] = true, true, true
		}
		return
	}
	if m == "alloc" {
		ms.comps["alloc"] = true
		return
	}
	if i := strings.LastIndex(m, "."); i > 0 {
		t := x.resolveType(m[:i], n)
		if m[i+1:] == "*" {
			su := t.Underlying().(*types.Struct)
			for j := 0; j < su.NumFields(); j++ {
				if !isSyncType(su.Field(j).Type()) {
					comp, _, _ := x.fieldComp(t, su.Field(j).Name())
					ms.comps[comp] = true
				}
			}
			return
		}
		comp, _, _ := x.fieldComp(t, m[i+1:])
		ms.comps[comp] = true
	}
}

func (x *Unit) contractMods(c *FuncContract, n ast.Node, ms *modSet) {
	if c.Pure {
		return
	}
	if c.ModAll || c.Interferes {
		ms.all = true
		return
	}
	for _, m := range c.Modifies {
		x.compsNamed(m, n, ms)
	}
	ms.comps["alloc"] = true
	if u := x.unitOfContract(c); u != nil && !c.NoCheck {
		sub := x.unitMods(u)
		if sub.all {
			ms.all = true
		}
		for k := range sub.comps {
			ms.comps[k] = true
		}
	}
}

func (x *Unit) unitOfContract(c *FuncContract) *FuncUnit {
	if u, ok := x.P.Units[unitKey(c.Pkg, c.Name)]; ok {
		return u
	}
	return nil
}

func (x *Unit) callMods(e *ast.CallExpr, ms *modSet) {
	defer func(before bool) {
		if !before && ms.all && os.Getenv("GOVC_DEBUG") != "" {
			fmt.Fprintf(os.Stderr, "mods: 'everything' because of call %s at %s\n", types.ExprString(e.Fun), x.P.Fset.Position(e.Pos()))
		}
	}(ms.all)
	if tv, ok := x.info.Types[e.Fun]; ok && tv.IsType() {
		return
	}
	obj := x.calleeObj(e)
	if b, ok := obj.(*types.Builtin); ok {
		switch b.Name() {
		case "delete":
			if mt, ok := x.typeOf(e.Args[0]).Underlying().(*types.Map); ok {
				d, v, c, _, _ := x.mapComps(mt)
				ms.comps[d], ms.comps[v], ms.comps[c] = true, true, true
			}
		case "make", "new":
			ms.comps["alloc"] = true
			if len(e.Args) > 0 {
				if t := x.typeOf(e.Args[0]); t != nil {
					if mt, ok := t.Underlying().(*types.Map); ok {
						d, v, c, _, _ := x.mapComps(mt)
						ms.comps[d], ms.comps[v], ms.comps[c] = true, true, true
					}
				}
			}
		case "copy":
			// destination handled as assignment target
			if len(e.Args) > 0 {
				switch l := ast.Unparen(e.Args[0]).(type) {
				case *ast.Ident:
					if o := x.info.ObjectOf(l); o != nil {
						ms.vars[o] = true
					}
				case *ast.SelectorExpr:
					if p, ok := x.typeOf(l.X).Underlying().(*types.Pointer); ok {
						comp, _, _ := x.fieldComp(p.Elem(), l.Sel.Name)
						ms.comps[comp] = true
					}
				}
			}
		case "recover", "panic":
			ms.calls = true
		}
		return
	}
	ms.calls = true
	if _, ok := ast.Unparen(e.Fun).(*ast.FuncLit); ok {
		return // body is walked by the inspector
	}
	if fn, ok := obj.(*types.Func); ok {
		fn = fn.Origin()
		sig := fn.Type().(*types.Signature)
		if fn.Pkg() != nil && (fn.Pkg().Path() == "sync" || fn.Pkg().Path() == "sync/atomic") {
			x.syncMods(e, fn, ms)
			return
		}
		if rs := sig.Recv(); rs != nil && types.IsInterface(rs.Type()) {
			name := recvTypeName(rs.Type()) + "." + fn.Name()
			if sel, ok := ast.Unparen(e.Fun).(*ast.SelectorExpr); ok {
				if n, ok := types.Unalias(x.typeOf(sel.X)).(*types.Named); ok {
					name = n.Obj().Name() + "." + fn.Name()
					if n.Obj().Pkg() != nil && n.Obj().Pkg().Path() != x.pkg.PkgPath {
						name = n.Obj().Pkg().Name() + "." + name
					}
				}
			}
			if c := x.lookupDynContract(name, fn.Name(), nil); c != nil {
				x.contractMods(c, e, ms)
				return
			}
			if isPureExternal(fn.FullName()) {
				return
			}
			ms.all = true
			return
		}
		if u := x.P.ByObj[fn]; u != nil {
			if u.Contract != nil && !u.Contract.Inline {
				x.contractMods(u.Contract, e, ms)
				return
			}
			// inlined callee: walk its body
			for _, s := range x.modStack {
				if s == u {
					ms.all = true
					return
				}
			}
			if len(x.modStack) > 5 {
				ms.all = true
				return
			}
			x.modStack = append(x.modStack, u)
			oi, op, mt := x.info, x.pkg, x.modsTop
			x.info, x.pkg, x.modsTop = u.Pkg.TypesInfo, u.Pkg, false
			sub := x.modsOf(u.Body)
			x.info, x.pkg, x.modsTop = oi, op, mt
			x.modStack = x.modStack[:len(x.modStack)-1]
			for c := range sub.comps {
				ms.comps[c] = true
			}
			if sub.all {
				ms.all = true
			}
			return
		}
		full := fn.FullName()
		if full == "(reflect.Value).Call" || full == "(reflect.Value).CallSlice" {
			ms.all = true
			return
		}
		ms.comps["alloc"] = true
		return
	}
	// function value
	if id, ok := ast.Unparen(e.Fun).(*ast.Ident); ok {
		if v, ok := x.info.ObjectOf(id).(*types.Var); ok {
			if fl, ok := x.closureBind[v]; ok {
				if x.litModsBusy == nil {
					x.litModsBusy = map[*ast.FuncLit]bool{}
				}
				if x.litModsBusy[fl] {
					// recursive call of the literal whose write set is being computed: it adds nothing new
					ms.comps["alloc"] = true
					return
				}
				x.litModsBusy[fl] = true
				defer delete(x.litModsBusy, fl)
				sub := x.modsOf(fl.Body)
				for c := range sub.comps {
					ms.comps[c] = true
				}
				for c := range sub.vars {
					ms.vars[c] = true
				}
				if sub.all {
					ms.all = true
				}
				return
			}
		}
	}
	ft := x.typeOf(e.Fun)
	if ft != nil {
		if c := x.lookupDynContract(x.dynName(e.Fun, ft), "", ft); c != nil {
			x.contractMods(c, e, ms)
			return
		}
	}
	ms.all = true
}

func (x *Unit) syncMods(e *ast.CallExpr, fn *types.Func, ms *modSet) {
	if fn.Pkg().Path() == "sync/atomic" {
		if len(e.Args) > 0 {
			if u, ok := ast.Unparen(e.Args[0]).(*ast.UnaryExpr); ok {
				if a, ok := ast.Unparen(u.X).(*ast.SelectorExpr); ok {
					if t := x.typeOf(a.X); t != nil {
						if p, ok := t.Underlying().(*types.Pointer); ok {
							comp, _, _ := x.fieldComp(p.Elem(), a.Sel.Name)
							ms.comps[comp] = true
							return
						}
					}
					if v, ok := x.info.ObjectOf(a.Sel).(*types.Var); ok && x.isPkgLevel(v) {
						ms.comps[x.globalComp(v)] = true
						return
					}
				}
				if id, ok := ast.Unparen(u.X).(*ast.Ident); ok {
					if v, ok := x.info.ObjectOf(id).(*types.Var); ok && x.isPkgLevel(v) {
						ms.comps[x.globalComp(v)] = true
						return
					}
				}
			}
		}
		ms.all = true
		return
	}
	sel, ok := ast.Unparen(e.Fun).(*ast.SelectorExpr)
	if !ok {
		ms.all = true
		return
	}
	inner, ok := ast.Unparen(sel.X).(*ast.SelectorExpr)
	if !ok {
		ms.all = true
		return
	}
	p, ok := x.typeOf(inner.X).Underlying().(*types.Pointer)
	if !ok {
		ms.all = true
		return
	}
	rt := x.typeOf(sel.X)
	tn := ""
	if n, ok := types.Unalias(rt).(*types.Named); ok {
		tn = n.Obj().Name()
	}
	switch tn {
	case "Mutex", "RWMutex":
		ms.comps[x.lockComp(p.Elem(), inner.Sel.Name)] = true
		x.regComp("$nlocks", SInt)
		ms.comps["$nlocks"] = true
		if x.mode == "conc" {
			for _, c := range x.guardedComps(p.Elem(), inner.Sel.Name) {
				ms.comps[c] = true
			}
		}
	case "Map":
		mt := types.NewMap(types.NewInterfaceType(nil, nil), types.NewInterfaceType(nil, nil))
		d, v, c, _, _ := x.mapComps(mt)
		ms.comps[d], ms.comps[v], ms.comps[c] = true, true, true
	default:
		ms.all = true
	}
}

// isFrameInternal: the clause mentions the callee frame's call trace or ghost variables.
func isFrameInternal(e SExpr, c *FuncContract) bool {
	ghosts := map[string]bool{}
	for _, g := range c.Ghosts {
		ghosts[g.Name] = true
	}
	for _, g := range c.Exports {
		delete(ghosts, g)
	}
	found := false
	var walk func(e SExpr)
	walk = func(e SExpr) {
		if found || e == nil {
			return
		}
		switch v := e.(type) {
		case *SIdent:
			if ghosts[v.Name] || v.Name == "clock" || v.Name == "panicking" {
				found = true
			}
		case *SUnary:
			walk(v.X)
		case *SBinary:
			walk(v.X)
			walk(v.Y)
		case *SCall:
			switch v.Fn {
			case "ncalls", "callarg", "callret", "calltime", "callpanicked":
				found = true
			}
			for _, a := range v.Args {
				walk(a)
			}
		case *SField:
			walk(v.X)
		case *SIndex:
			walk(v.X)
			walk(v.I)
		case *SQuant:
			walk(v.Body)
		}
	}
	walk(e)
	return found
}

func (x *Unit) isErrorsAs(e *ast.CallExpr) bool {
	if fn, ok := x.calleeObj(e).(*types.Func); ok {
		return fn.FullName() == "errors.As"
	}
	return false
}

func isKnownExternal(full string) bool {
	switch full {
	case "(context.Context).Value", "(context.Context).Done", "(context.Context).Err":
		return true
	}
	return false
}

// resolveTypeIn resolves a type expression in the given package (file scope, so imports are visible); "" = the unit's package.
func (x *Unit) resolveTypeIn(pkgPath, s string) types.Type {
	if pkgPath == "" || pkgPath == x.FU.Pkg.PkgPath {
		return x.resolveType(s, x.FU.Body)
	}
	if pk, ok := x.P.Pkgs[pkgPath]; ok {
		for _, f := range pk.Syntax {
			if tv, err := types.Eval(x.P.Fset, pk.Types, f.End()-1, s); err == nil && tv.IsType() {
				return tv.Type
			}
		}
	}
	return x.resolveType(s, x.FU.Body)
}

// canonPure: canonical name of the uninterpreted function behind a pure contract: <pkgname>.<Type>.<Method> or <pkgname>.<Func>
func (x *Unit) canonPure(key, pkgPath string) string {
	parts := strings.Split(key, ".")
	if len(parts) >= 3 {
		return key
	}
	if len(parts) == 2 {
		// either Type.Method (unqualified) or pkg.Func
		for _, pk := range x.P.Pkgs {
			if pk.Name == parts[0] && pk.Types.Scope().Lookup(parts[1]) != nil {
				return key
			}
		}
	}
	if pkgPath == "" {
		pkgPath = x.FU.Pkg.PkgPath
	}
	if pk, ok := x.P.Pkgs[pkgPath]; ok {
		return pk.Name + "." + key
	}
	return key
}

// unitMods: syntactic write set of a function under contract (cached), computed with that function's own type information.
func (x *Unit) unitMods(u *FuncUnit) *modSet {
	if ms, ok := x.modCache[u]; ok {
		return ms
	}
	for _, s := range x.modStack {
		if s == u {
			return &modSet{all: true, vars: map[types.Object]bool{}, comps: map[string]bool{}, ghosts: map[string]bool{}}
		}
	}
	x.modStack = append(x.modStack, u)
	oi, op, mt := x.info, x.pkg, x.modsTop
	x.info, x.pkg, x.modsTop = u.Pkg.TypesInfo, u.Pkg, false
	ms := x.modsOf(u.Body)
	x.info, x.pkg, x.modsTop = oi, op, mt
	x.modStack = x.modStack[:len(x.modStack)-1]
	x.modCache[u] = ms
	return ms
}

func (x *Unit) havocModSet(st *State, ms *modSet) {
	if ms.comps["alloc"] {
		x.regComp("alloc", SInt)
		old := x.get(st, "alloc")
		x.havocComp(st, "alloc")
		x.assumes = append(x.assumes, "(>= "+x.get(st, "alloc").S+" "+old.S+")")
	}
	var names []string
	for c := range ms.comps {
		names = append(names, c)
	}
	sort.Strings(names)
	for _, c := range names {
		if c == "alloc" || c == "$nlocks" || strings.HasPrefix(c, "L:") {
			continue
		}
		if _, ok := x.compSorts[c]; ok {
			x.havocComp(st, c)
		}
	}
}

// resolveTypeAny resolves a type expression in whichever loaded package knows it.
func (x *Unit) resolveTypeAny(s string) types.Type {
	for _, pk := range x.P.Pkgs {
		for _, f := range pk.Syntax {
			if tv, err := types.Eval(x.P.Fset, pk.Types, f.End()-1, s); err == nil && tv.IsType() {
				return tv.Type
			}
		}
	}
	panic(unsupportedErr{"cannot resolve type " + s})
}

// recursiveLit handles a call of a function literal from inside its own body (recursion through the closure variable the
// literal is bound to). The literal is checked under the frame contract derived from its syntactic write set W: "true" as pre-
// and postcondition, modifies W. By induction on the recursion depth: the first recursive call havocs W and runs the body once
// more from that arbitrary state (so every obligation of the body is generated for the state of an arbitrary recursion level,
// not only for the state of the first call); a recursive call met while doing so havocs W and goes on. After the call W is
// arbitrary again. Sound for safety, frame and panic edges under partial correctness; it says nothing about what the recursion computes.
func (x *Unit) recursiveLit(st *State, pc *preparedCall) []Term {
	fl := pc.lit
	note := x.FU.Name + ": function literal calling itself through the variable it is bound to: checked under the frame contract of its syntactic write set by induction on the recursion depth (safety, frames, type invariants); what the recursion computes is NOT decided, its termination is not claimed"
	have := false
	for _, a := range x.assumedAt {
		if a == note {
			have = true
		}
	}
	if !have {
		x.assumedAt = append(x.assumedAt, note)
	}
	ms := x.modsOf(fl.Body)
	ms.comps["alloc"] = true
	havoc := func() {
		// Map writes of the body that go through a variable the body never assigns change that one map object only: the
		// map components are havocked at that reference and nowhere else (another map of the same type - a field of the
		// receiver, say - keeps its contents). Applies only when the body calls nothing but builtins and itself.
		targets := x.mapWriteTargets(st, fl.Body, ms)
		before := map[string]Term{}
		for c := range targets {
			before[c] = x.get(st, c)
		}
		x.havocForLoop(st, ms, fl.Body)
		for c, ref := range targets {
			x.set(st, c, Store(before[c], ref, Select(x.get(st, c), ref)))
		}
	}
	havoc()
	if x.litActive[fl] == 1 {
		inLit := func(o types.Object) bool { return o != nil && o.Pos() >= fl.Pos() && o.Pos() <= fl.End() }
		saved := map[types.Object]Term{}
		for o, t := range st.vars {
			if inLit(o) {
				saved[o] = t
			}
		}
		x.litActive[fl]++
		x.inlineBody(st, fl.Body, fl.Type, pc.sig, nil, nil, pc.args, pc.call, false)
		x.litActive[fl]--
		if !st.dead() {
			for o := range st.vars {
				if inLit(o) {
					delete(st.vars, o)
				}
			}
			for o, t := range saved {
				st.vars[o] = t
			}
			havoc()
		}
	}
	var rets []Term
	for i := 0; i < pc.sig.Results().Len(); i++ {
		rt := pc.sig.Results().At(i).Type()
		rets = append(rets, x.freshVal("rec", x.U.SortOf(rt), rt))
	}
	return rets
}

// mapWriteTargets: map component -> the single reference at which the statements under root write it, when that can be read
// off the syntax: every map write is `v[k] = ...` through a variable v that is never assigned under root, and root calls nothing
// but builtins (not delete/clear) and function literals bound to a local variable whose bodies satisfy the same condition.
func (x *Unit) mapWriteTargets(st *State, root ast.Node, ms *modSet) map[string]Term {
	out := map[string]Term{}
	ok := true
	perComp := map[string]*types.Var{}
	seen := map[*ast.FuncLit]bool{}
	note := func(e ast.Expr) {
		ix, isIx := ast.Unparen(e).(*ast.IndexExpr)
		if !isIx {
			return
		}
		mt, isMap := x.typeOf(ix.X).Underlying().(*types.Map)
		if !isMap {
			return
		}
		d, v, c, _, _ := x.mapComps(mt)
		id, isId := ast.Unparen(ix.X).(*ast.Ident)
		if !isId {
			ok = false
			return
		}
		vr, isVar := x.info.ObjectOf(id).(*types.Var)
		if !isVar || ms.vars[vr] || x.isPkgLevel(vr) {
			ok = false
			return
		}
		for _, k := range []string{d, v, c} {
			if o, have := perComp[k]; have && o != vr {
				ok = false
			}
			perComp[k] = vr
		}
	}
	var walk func(n ast.Node) bool
	walk = func(n ast.Node) bool {
		switch n := n.(type) {
		case *ast.AssignStmt:
			for _, l := range n.Lhs {
				note(l)
			}
		case *ast.IncDecStmt:
			note(n.X)
		case *ast.CallExpr:
			if tv, isT := x.info.Types[n.Fun]; isT && tv.IsType() {
				return true
			}
			if b, isB := x.calleeObj(n).(*types.Builtin); isB {
				if b.Name() == "delete" || b.Name() == "clear" {
					ok = false
				}
				return true
			}
			if id, isId := ast.Unparen(n.Fun).(*ast.Ident); isId {
				if vr, isVar := x.info.ObjectOf(id).(*types.Var); isVar {
					if fl, bound := x.closureBind[vr]; bound {
						if !seen[fl] {
							seen[fl] = true
							ast.Inspect(fl.Body, walk)
						}
						return true
					}
				}
			}
			ok = false
		case *ast.GoStmt, *ast.DeferStmt, *ast.StarExpr:
			ok = false
		}
		return true
	}
	ast.Inspect(root, walk)
	if !ok {
		return map[string]Term{}
	}
	for c, vr := range perComp {
		if _, have := x.compSorts[c]; have {
			if _, assigned := st.vars[vr]; assigned {
				out[c] = x.readVar(st, vr)
			}
		}
	}
	if len(out) != len(perComp) {
		return map[string]Term{}
	}
	return out
}
