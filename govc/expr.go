package main

// Go expression evaluation over symbolic states.

import (
	"fmt"
	"go/ast"
	"go/constant"
	"go/token"
	"go/types"
	"strings"
)

func (x *Unit) typeOf(e ast.Expr) types.Type {
	if tv, ok := x.info.Types[e]; ok {
		return tv.Type
	}
	if id, ok := e.(*ast.Ident); ok {
		if o := x.info.ObjectOf(id); o != nil {
			return o.Type()
		}
	}
	return nil
}

// conv converts a value of static type from to static type to (assignment conversion).
func (x *Unit) conv(v Term, from, to types.Type) Term {
	if to == nil || from == nil {
		return v
	}
	ts := x.U.SortOf(to)
	if ts == SIface && v.Sort != SIface {
		r := x.U.Box(v, from)
		r.GoT = to
		return r
	}
	if v.Sort == SIface && ts != SIface {
		// untyped nil to pointer/map/slice/func
		if b, ok := from.(*types.Basic); ok && b.Kind() == types.UntypedNil {
			z := x.U.Zero(ts)
			z.GoT = to
			return z
		}
	}
	v.GoT = to
	return v
}

func isNilIdent(info *types.Info, e ast.Expr) bool {
	if id, ok := ast.Unparen(e).(*ast.Ident); ok {
		_, isNil := info.ObjectOf(id).(*types.Nil)
		return isNil
	}
	return false
}

func (x *Unit) constTerm(tv types.TypeAndValue) (Term, bool) {
	if tv.Value == nil {
		return Term{}, false
	}
	s := x.U.SortOf(tv.Type)
	switch tv.Value.Kind() {
	case constant.Bool:
		if constant.BoolVal(tv.Value) {
			return TG("true", SBool, tv.Type), true
		}
		return TG("false", SBool, tv.Type), true
	case constant.Int:
		if s == SInt {
			if n, ok := constant.Int64Val(tv.Value); ok {
				t := IntLit(n)
				t.GoT = tv.Type
				return t, true
			}
			t := T(tv.Value.ExactString(), SInt)
			t.GoT = tv.Type
			return t, true
		}
	case constant.String:
		if s == SStr {
			t := x.U.StrLit(constant.StringVal(tv.Value))
			t.GoT = tv.Type
			return t, true
		}
	}
	return Term{}, false
}

// eval evaluates e to a single value.
func (x *Unit) eval(st *State, e ast.Expr) Term {
	if tv, ok := x.info.Types[e]; ok && tv.Value != nil {
		if t, ok := x.constTerm(tv); ok {
			return t
		}
	}
	switch e := e.(type) {
	case *ast.ParenExpr:
		return x.eval(st, e.X)
	case *ast.Ident:
		return x.evalIdent(st, e)
	case *ast.BasicLit:
		x.fail(e, "unsupported literal %s", e.Value)
	case *ast.SelectorExpr:
		return x.evalSelector(st, e)
	case *ast.StarExpr:
		pt := x.typeOf(e.X)
		p := x.eval(st, e.X)
		return x.loadStruct(st, p, pt.Underlying().(*types.Pointer).Elem(), e)
	case *ast.UnaryExpr:
		return x.evalUnary(st, e)
	case *ast.BinaryExpr:
		return x.evalBinary(st, e)
	case *ast.CallExpr:
		rs := x.call(st, e)
		if len(rs) != 1 {
			x.fail(e, "call in single-value context returns %d values", len(rs))
		}
		return rs[0]
	case *ast.CompositeLit:
		return x.evalComposite(st, e, false)
	case *ast.IndexExpr:
		return x.evalIndex(st, e)
	case *ast.SliceExpr:
		return x.evalSliceExpr(st, e)
	case *ast.TypeAssertExpr:
		v, ok := x.typeAssert(st, e)
		x.oblige(st, "safety", x.safetyLabel("type-assert"), x.safetyTags(), ok, "type assertion succeeds", e)
		return v
	case *ast.FuncLit:
		return x.evalFuncLit(st, e)
	case *ast.KeyValueExpr:
		x.fail(e, "unexpected key-value")
	}
	x.fail(e, "unsupported expression %T", e)
	return Term{}
}

func (x *Unit) safetyTags() []string {
	if x.FU.Contract != nil {
		return x.FU.Contract.SafetyTags
	}
	return nil
}

func (x *Unit) safetyLabel(kind string) string {
	x.callOrd["safety:"+kind]++
	return fmt.Sprintf("%s#%d", kind, x.callOrd["safety:"+kind])
}

func (x *Unit) safetyOn() bool {
	return x.FU.Contract == nil || !x.FU.Contract.SafetyOff
}

func (x *Unit) evalIdent(st *State, id *ast.Ident) Term {
	obj := x.info.ObjectOf(id)
	switch o := obj.(type) {
	case *types.Nil:
		return TG("nilI", SIface, types.Typ[types.UntypedNil])
	case *types.Const:
		if t, ok := x.constTerm(types.TypeAndValue{Type: o.Type(), Value: o.Val()}); ok {
			return t
		}
		x.fail(id, "unsupported constant %s", id.Name)
	case *types.Var:
		return x.readVar(st, o)
	case *types.Func:
		// function value
		r := x.U.Const(q("fn:"+o.FullName()), SInt)
		r.GoT = o.Type()
		x.assumeOnce("(> " + r.S + " 0)")
		return r
	case *types.TypeName:
		x.fail(id, "type used as value")
	}
	if id.Name == "_" {
		x.fail(id, "blank identifier read")
	}
	x.fail(id, "unsupported identifier %s (%T)", id.Name, obj)
	return Term{}
}

func (x *Unit) assumeOnce(s string) {
	if _, ok := x.compAt["assume:"+s]; ok {
		return
	}
	x.compAt["assume:"+s] = True
	x.assumes = append(x.assumes, s)
}

func (x *Unit) isPkgLevel(v *types.Var) bool {
	return v.Parent() != nil && v.Pkg() != nil && v.Parent() == v.Pkg().Scope()
}

func (x *Unit) globalComp(v *types.Var) string {
	comp := "G:" + v.Pkg().Name() + "." + v.Name()
	x.regComp(comp, x.U.SortOf(v.Type()))
	return comp
}

func (x *Unit) readVar(st *State, v *types.Var) Term {
	if x.isPkgLevel(v) {
		// package-level variable: immutable-by-convention sentinels get a stable constant
		s := x.U.SortOf(v.Type())
		if isSentinelVar(v) {
			c := x.U.Const(q("G:"+v.Pkg().Name()+"."+v.Name()), s)
			c.GoT = v.Type()
			if s == SIface {
				x.assumeOnce("(not ((_ is nilI) " + c.S + "))")
				x.sentinels[c.S] = true
			}
			return c
		}
		t := x.get(st, x.globalComp(v))
		t.GoT = v.Type()
		return t
	}
	if t, ok := st.vars[v]; ok {
		t.GoT = v.Type()
		return t
	}
	// captured variable of a closure unit, or variable not yet assigned: fresh symbol
	s := x.U.SortOf(v.Type())
	t := x.U.Const(q(v.Name()+"@cap"), s)
	t.GoT = v.Type()
	x.typeInv(t)
	st.vars[v] = t
	if x.entry != nil {
		if _, ok := x.entry.vars[v]; !ok {
			x.entry.vars[v] = t
		}
	}
	return t
}

func isSentinelVar(v *types.Var) bool {
	n := v.Name()
	return strings.HasPrefix(n, "Err") || strings.HasSuffix(n, "Type") || n == "reservedTypes"
}

func (x *Unit) writeVar(st *State, v *types.Var, t Term) {
	if x.isPkgLevel(v) {
		x.set(st, x.globalComp(v), t)
		return
	}
	nt := x.define(v.Name(), t)
	nt.GoT = v.Type()
	nt.Sort = x.U.SortOf(v.Type())
	st.vars[v] = nt
}

// derefCheck emits the nil-dereference safety obligation.
func (x *Unit) derefCheck(st *State, p Term, n ast.Node, what string) {
	if !x.safetyOn() {
		return
	}
	x.oblige(st, "safety", x.safetyLabel("nil-deref"), x.safetyTags(), Not(Eq(p, T("0", SInt))), "non-nil "+what, n)
}

func (x *Unit) loadStruct(st *State, p Term, t types.Type, n ast.Node) Term {
	s := x.U.SortOf(t)
	if s.Kind != KStruct {
		x.fail(n, "unsupported pointer dereference of %s", t)
	}
	x.derefCheck(st, p, n, "pointer")
	vals := make([]Term, len(s.Fields))
	for i, f := range s.Fields {
		comp, _, _ := x.fieldComp(t, f.Name)
		vals[i] = Select(x.get(st, comp), p)
	}
	r := x.U.StructMk(s, vals)
	r.GoT = t
	return r
}

func (x *Unit) evalSelector(st *State, e *ast.SelectorExpr) Term {
	if sel, ok := x.info.Selections[e]; ok {
		switch sel.Kind() {
		case types.FieldVal:
			return x.evalFieldPath(st, e, sel)
		case types.MethodVal:
			// method value: opaque function reference of receiver
			recv := x.eval(st, e.X)
			f := x.U.Fun(q("methodval:"+sel.Obj().Name()), []*Sort{recv.Sort}, SInt)
			return TG("("+f+" "+recv.S+")", SInt, sel.Type())
		}
		x.fail(e, "unsupported selection kind")
	}
	// qualified identifier pkg.Name
	obj := x.info.ObjectOf(e.Sel)
	switch o := obj.(type) {
	case *types.Var:
		return x.readVar(st, o)
	case *types.Const:
		if t, ok := x.constTerm(types.TypeAndValue{Type: o.Type(), Value: o.Val()}); ok {
			return t
		}
	case *types.Func:
		r := x.U.Const(q("fn:"+o.FullName()), SInt)
		r.GoT = o.Type()
		return r
	}
	x.fail(e, "unsupported qualified identifier %s", e.Sel.Name)
	return Term{}
}

// evalFieldPath handles x.f including promoted fields through embedded structs.
func (x *Unit) evalFieldPath(st *State, e *ast.SelectorExpr, sel *types.Selection) Term {
	base := x.eval(st, e.X)
	bt := x.typeOf(e.X)
	idx := sel.Index()
	cur := base
	curT := bt
	for _, i := range idx {
		var stT types.Type = curT
		isPtr := false
		if p, ok := curT.Underlying().(*types.Pointer); ok {
			stT = p.Elem()
			isPtr = true
		}
		su, ok := stT.Underlying().(*types.Struct)
		if !ok {
			x.fail(e, "field selection on non-struct %s", curT)
		}
		f := su.Field(i)
		if isPtr {
			x.derefCheck(st, cur, e, "receiver of ."+f.Name())
			x.guardCheck(st, cur, stT, f.Name(), false, e)
			comp, fs, ft := x.fieldComp(stT, f.Name())
			cur = Select(x.get(st, comp), cur)
			cur.Sort = fs
			cur.GoT = ft
			if fs.Kind == KSlice {
				cur = x.define("ld", cur)
				cur.Sort = fs
				cur.GoT = ft
				x.typeInv(cur)
			}
		} else {
			if cur.Sort.Kind != KStruct {
				x.fail(e, "field %s of opaque value %s", f.Name(), cur.Sort.Name)
			}
			cur = x.U.StructGet(cur, f.Name())
			cur.GoT = f.Type()
		}
		curT = f.Type()
	}
	return cur
}

func (x *Unit) evalUnary(st *State, e *ast.UnaryExpr) Term {
	switch e.Op {
	case token.NOT:
		return Not(x.eval(st, e.X))
	case token.SUB:
		v := x.eval(st, e.X)
		return TG("(- "+v.S+")", SInt, v.GoT)
	case token.ADD:
		return x.eval(st, e.X)
	case token.AND:
		if cl, ok := ast.Unparen(e.X).(*ast.CompositeLit); ok {
			return x.evalComposite(st, cl, true)
		}
		// &local where local is a struct value: the callee receives a pointer to a fresh heap copy
		if id, ok := ast.Unparen(e.X).(*ast.Ident); ok {
			if v, ok := x.info.ObjectOf(id).(*types.Var); ok && !x.isPkgLevel(v) {
				if su, ok := v.Type().Underlying().(*types.Struct); ok {
					val := x.readVar(st, v)
					if val.Sort.Kind == KStruct {
						ref := x.alloc(st)
						for j := 0; j < su.NumFields(); j++ {
							f := su.Field(j)
							if val.Sort.fieldIndex(f.Name()) < 0 {
								continue
							}
							comp, _, _ := x.fieldComp(v.Type(), f.Name())
							x.set(st, comp, Store(x.get(st, comp), ref, x.U.StructGet(val, f.Name())))
						}
						x.abstractions["&"+id.Name+": pointer to a copy of the local struct (writes through it are not reflected back)"] = true
						ref.GoT = types.NewPointer(v.Type())
						return ref
					}
				}
			}
		}
		x.fail(e, "unsupported address-of expression")
	case token.ARROW:
		// channel receive: value is nondeterministic
		t := x.typeOf(e)
		return x.freshVal("recv", x.U.SortOf(t), t)
	}
	x.fail(e, "unsupported unary operator %s", e.Op)
	return Term{}
}

func (x *Unit) evalBinary(st *State, e *ast.BinaryExpr) Term {
	switch e.Op {
	case token.LAND, token.LOR:
		a := x.eval(st, e.X)
		// evaluate rhs under the short-circuit condition (for safety obligations and side effects)
		var c Term
		if e.Op == token.LAND {
			c = a
		} else {
			c = Not(a)
		}
		s1 := x.withCond(st, c)
		b := x.eval(s1, e.Y)
		s0 := x.withCond(st, Not(c))
		m := x.merge(s1, s0)
		// copy merged back into st (preserving st.pc)
		pc := st.pc
		*st = *m
		st.pc = pc
		if e.Op == token.LAND {
			return And(a, b)
		}
		return Or(a, b)
	}
	lt, rt := x.typeOf(e.X), x.typeOf(e.Y)
	// comparison with nil
	if e.Op == token.EQL || e.Op == token.NEQ {
		var r Term
		switch {
		case isNilIdent(x.info, e.Y):
			r = x.isNil(x.eval(st, e.X), lt)
		case isNilIdent(x.info, e.X):
			r = x.isNil(x.eval(st, e.Y), rt)
		default:
			a, b := x.eval(st, e.X), x.eval(st, e.Y)
			// mixed interface / concrete comparison
			if a.Sort == SIface && b.Sort != SIface {
				b = x.U.Box(b, rt)
			} else if b.Sort == SIface && a.Sort != SIface {
				a = x.U.Box(a, lt)
			}
			if a.Sort.Kind == KSlice || a.Sort.Kind == KOpaque && false {
				x.fail(e, "slice comparison")
			}
			r = Eq(a, b)
		}
		if e.Op == token.NEQ {
			return Not(r)
		}
		return r
	}
	a, b := x.eval(st, e.X), x.eval(st, e.Y)
	resT := x.typeOf(e)
	switch e.Op {
	case token.ADD:
		if a.Sort == SStr {
			f := x.U.Fun("str.concat", []*Sort{SStr, SStr}, SStr)
			return TG("("+f+" "+a.S+" "+b.S+")", SStr, resT)
		}
		return TG("(+ "+a.S+" "+b.S+")", SInt, resT)
	case token.SUB:
		return TG("(- "+a.S+" "+b.S+")", SInt, resT)
	case token.MUL:
		return TG("(* "+a.S+" "+b.S+")", SInt, resT)
	case token.QUO:
		return TG("(div "+a.S+" "+b.S+")", SInt, resT)
	case token.REM:
		return TG("(mod "+a.S+" "+b.S+")", SInt, resT)
	case token.LSS:
		return T("(< "+a.S+" "+b.S+")", SBool)
	case token.LEQ:
		return T("(<= "+a.S+" "+b.S+")", SBool)
	case token.GTR:
		return T("(> "+a.S+" "+b.S+")", SBool)
	case token.GEQ:
		return T("(>= "+a.S+" "+b.S+")", SBool)
	}
	x.fail(e, "unsupported binary operator %s", e.Op)
	return Term{}
}

func (x *Unit) isNil(v Term, t types.Type) Term {
	switch v.Sort.Kind {
	case KIface:
		return x.U.IsNilIface(v)
	case KInt:
		return Eq(v, T("0", SInt))
	case KSlice:
		return x.U.SliceNil(v)
	}
	panic("isNil on " + v.Sort.Name)
}

func (x *Unit) evalComposite(st *State, e *ast.CompositeLit, addr bool) Term {
	t := x.typeOf(e)
	switch ut := t.Underlying().(type) {
	case *types.Struct:
		s := x.U.SortOf(t)
		vals := map[string]Term{}
		for i, el := range e.Elts {
			if kv, ok := el.(*ast.KeyValueExpr); ok {
				name := kv.Key.(*ast.Ident).Name
				var ft types.Type
				for j := 0; j < ut.NumFields(); j++ {
					if ut.Field(j).Name() == name {
						ft = ut.Field(j).Type()
					}
				}
				vals[name] = x.conv(x.evalNilAware(st, kv.Value, ft), x.typeOf(kv.Value), ft)
			} else {
				f := ut.Field(i)
				vals[f.Name()] = x.conv(x.evalNilAware(st, el, f.Type()), x.typeOf(el), f.Type())
			}
		}
		if addr {
			ref := x.alloc(st)
			for j := 0; j < ut.NumFields(); j++ {
				f := ut.Field(j)
				fs := x.U.SortOf(f.Type())
				if fs.Kind == KOpaque && isSyncType(f.Type()) {
					// mutex / sync.Map: initialise lock state & map
					x.initSyncField(st, t, f, ref)
					continue
				}
				v, ok := vals[f.Name()]
				if !ok {
					v = x.U.Zero(fs)
				}
				comp, _, _ := x.fieldComp(t, f.Name())
				x.set(st, comp, Store(x.get(st, comp), ref, v))
			}
			r := ref
			r.GoT = types.NewPointer(t)
			return r
		}
		if s.Kind != KStruct {
			if len(e.Elts) == 0 {
				z := x.U.Zero(s)
				z.GoT = t
				return z
			}
			x.fail(e, "composite literal of opaque struct %s", t)
		}
		fv := make([]Term, len(s.Fields))
		for j, f := range s.Fields {
			if v, ok := vals[f.Name]; ok {
				fv[j] = v
			} else {
				fv[j] = x.U.Zero(f.Sort)
			}
		}
		r := x.U.StructMk(s, fv)
		r.GoT = t
		return r
	case *types.Slice:
		s := x.U.SortOf(t)
		arr := x.U.Const(q("emptyarr<"+strings.Trim(s.Elem.Name, "|")+">"), x.U.arraySort(SInt, s.Elem))
		for i, el := range e.Elts {
			if _, ok := el.(*ast.KeyValueExpr); ok {
				x.fail(e, "keyed slice literal")
			}
			var v Term
			if cl, ok := el.(*ast.CompositeLit); ok && cl.Type == nil {
				v = x.evalComposite(st, cl, false)
			} else {
				v = x.conv(x.evalNilAware(st, el, ut.Elem()), x.typeOf(el), ut.Elem())
			}
			arr = Store(arr, IntLit(int64(i)), v)
		}
		r := x.U.SliceMk(s, False, IntLit(int64(len(e.Elts))), arr)
		r.GoT = t
		return x.define("lit", r)
	case *types.Map:
		m := x.newMap(st, ut)
		for _, el := range e.Elts {
			kv := el.(*ast.KeyValueExpr)
			k := x.conv(x.eval(st, kv.Key), x.typeOf(kv.Key), ut.Key())
			var v Term
			if cl, ok := kv.Value.(*ast.CompositeLit); ok && cl.Type == nil {
				v = x.evalComposite(st, cl, false)
			} else {
				v = x.conv(x.eval(st, kv.Value), x.typeOf(kv.Value), ut.Elem())
			}
			x.mapStore(st, ut, m, k, v)
		}
		m.GoT = t
		return m
	}
	x.fail(e, "unsupported composite literal of type %s", t)
	return Term{}
}

func isSyncType(t types.Type) bool {
	if n, ok := types.Unalias(t).(*types.Named); ok && n.Obj().Pkg() != nil {
		return n.Obj().Pkg().Path() == "sync"
	}
	return false
}

func (x *Unit) initSyncField(st *State, structT types.Type, f *types.Var, ref Term) {
	n := types.Unalias(f.Type()).(*types.Named).Obj().Name()
	switch n {
	case "Mutex", "RWMutex":
		comp := x.lockComp(structT, f.Name())
		x.set(st, comp, Store(x.get(st, comp), ref, T("0", SInt)))
	case "Map":
		// a sync.Map field is modelled as an (initially empty) map[any]any owned by the struct
		mt := types.NewMap(types.NewInterfaceType(nil, nil), types.NewInterfaceType(nil, nil))
		m := x.newMap(st, mt)
		comp := x.regComp("F:"+recvTypeName(structT)+"."+f.Name(), x.U.arraySort(SInt, SInt))
		x.set(st, comp, Store(x.get(st, comp), ref, m))
	}
}

func (x *Unit) lockComp(structT types.Type, field string) string {
	return x.regComp("L:"+recvTypeName(structT)+"."+field, x.U.arraySort(SInt, SInt))
}

// evalNilAware evaluates e, turning an untyped nil into the zero value of the target type.
func (x *Unit) evalNilAware(st *State, e ast.Expr, target types.Type) Term {
	if isNilIdent(x.info, e) && target != nil {
		z := x.U.Zero(x.U.SortOf(target))
		z.GoT = target
		return z
	}
	return x.eval(st, e)
}

func (x *Unit) newMap(st *State, mt *types.Map) Term {
	dom, _, card, ks, _ := x.mapComps(mt)
	ref := x.alloc(st)
	emptyDom := T("((as const (Array "+ks.Name+" Bool)) false)", x.U.arraySort(ks, SBool))
	x.set(st, dom, Store(x.get(st, dom), ref, emptyDom))
	x.set(st, card, Store(x.get(st, card), ref, T("0", SInt)))
	ref.GoT = mt
	return ref
}

func (x *Unit) mapStore(st *State, mt *types.Map, m, k, v Term) {
	dom, val, card, _, _ := x.mapComps(mt)
	d := x.get(st, dom)
	dm := Select(d, m)
	had := Select(dm, k)
	c := x.get(st, card)
	x.set(st, card, Store(c, m, Ite(had, Select(c, m), T("(+ "+Select(c, m).S+" 1)", SInt))))
	x.set(st, dom, Store(d, m, Store(dm, k, True)))
	vv := x.get(st, val)
	x.set(st, val, Store(vv, m, Store(Select(vv, m), k, v)))
}

func (x *Unit) mapDelete(st *State, mt *types.Map, m, k Term) {
	dom, _, card, _, _ := x.mapComps(mt)
	d := x.get(st, dom)
	dm := Select(d, m)
	had := Select(dm, k)
	c := x.get(st, card)
	// deleting from a nil map is a no-op
	isnil := Eq(m, T("0", SInt))
	x.set(st, card, Ite(isnil, c, Store(c, m, Ite(had, T("(- "+Select(c, m).S+" 1)", SInt), Select(c, m)))))
	x.set(st, dom, Ite(isnil, d, Store(d, m, Store(dm, k, False))))
}

func (x *Unit) mapLoad(st *State, mt *types.Map, m, k Term) (Term, Term) {
	dom, val, _, _, vs := x.mapComps(mt)
	isnil := Eq(m, T("0", SInt))
	has := And(Not(isnil), Select(Select(x.get(st, dom), m), k))
	v := Ite(has, Select(Select(x.get(st, val), m), k), x.U.Zero(vs))
	v.Sort = vs
	v.GoT = mt.Elem()
	if vs.Kind == KSlice {
		v = x.define("mld", v)
		v.Sort = vs
		v.GoT = mt.Elem()
		x.typeInv(v)
	}
	return v, has
}

func (x *Unit) mapLen(st *State, mt *types.Map, m Term) Term {
	_, _, card, _, _ := x.mapComps(mt)
	c := Select(x.get(st, card), m)
	x.assumes = append(x.assumes, "(>= "+c.S+" 0)")
	return Ite(Eq(m, T("0", SInt)), T("0", SInt), c)
}

func (x *Unit) evalIndex(st *State, e *ast.IndexExpr) Term {
	bt := x.typeOf(e.X)
	if bt == nil {
		x.fail(e, "index of untyped expression")
	}
	if _, isSig := bt.Underlying().(*types.Signature); isSig {
		// generic instantiation f[T]
		return x.eval(st, e.X)
	}
	switch ut := bt.Underlying().(type) {
	case *types.Map:
		m := x.eval(st, e.X)
		k := x.conv(x.eval(st, e.Index), x.typeOf(e.Index), ut.Key())
		v, _ := x.mapLoad(st, ut, m, k)
		return v
	case *types.Slice, *types.Array:
		s := x.eval(st, e.X)
		i := x.eval(st, e.Index)
		x.boundsCheck(st, i, x.U.SliceLen(s), e)
		r := x.U.SliceIndex(s, i)
		r.GoT = x.typeOf(e)
		if r.Sort.Kind == KSlice {
			r2 := x.define("ix", r)
			r2.Sort, r2.GoT = r.Sort, r.GoT
			x.typeInv(r2)
			return r2
		}
		return r
	case *types.Pointer:
		x.fail(e, "index through pointer to array")
	}
	x.fail(e, "unsupported index expression on %s", bt)
	return Term{}
}

func (x *Unit) boundsCheck(st *State, i, ln Term, n ast.Node) {
	if !x.safetyOn() {
		return
	}
	x.oblige(st, "safety", x.safetyLabel("index"), x.safetyTags(), T("(and (<= 0 "+i.S+") (< "+i.S+" "+ln.S+"))", SBool), "index in range", n)
}

func (x *Unit) evalSliceExpr(st *State, e *ast.SliceExpr) Term {
	s := x.eval(st, e.X)
	if s.Sort.Kind != KSlice {
		x.fail(e, "slicing of %s", s.Sort.Name)
	}
	ln := x.U.SliceLen(s)
	lo := T("0", SInt)
	hi := ln
	if e.Low != nil {
		lo = x.eval(st, e.Low)
	}
	if e.High != nil {
		hi = x.eval(st, e.High)
	}
	if x.safetyOn() {
		// note: hi may go up to cap; we require hi <= len (stricter than Go; all uses in scope satisfy it)
		x.oblige(st, "safety", x.safetyLabel("slice"), x.safetyTags(), T("(and (<= 0 "+lo.S+") (<= "+lo.S+" "+hi.S+") (<= "+hi.S+" "+ln.S+"))", SBool), "slice bounds in range", e)
	}
	arr := x.U.SliceArr(s)
	var narr Term
	if lo.S == "0" {
		narr = arr
	} else {
		// shifted array: fresh array with pointwise definition
		na := x.freshVal("shift", arr.Sort, nil)
		x.assumes = append(x.assumes, fmt.Sprintf("(forall ((bv!i Int)) (! (= (select %s bv!i) (select %s (+ bv!i %s))) :pattern ((select %s bv!i))))", na.S, arr.S, lo.S, na.S))
		narr = na
	}
	r := x.U.SliceMk(s.Sort, False, T("(- "+hi.S+" "+lo.S+")", SInt), narr)
	r.GoT = x.typeOf(e)
	r = x.define("sl", r)
	return r
}

// typeAssert returns the asserted value and the success condition.
func (x *Unit) typeAssert(st *State, e *ast.TypeAssertExpr) (Term, Term) {
	v := x.eval(st, e.X)
	t := x.typeOf(e.Type)
	if v.Sort != SIface {
		x.fail(e, "type assertion on non-interface")
	}
	ok := x.U.HasType(v, t)
	val := x.U.Unbox(v, t)
	val.GoT = t
	zero := x.U.Zero(x.U.SortOf(t))
	r := Ite(ok, val, zero)
	r.Sort = x.U.SortOf(t)
	r.GoT = t
	return r, ok
}

func (x *Unit) evalFuncLit(st *State, e *ast.FuncLit) Term {
	ref := x.alloc(st)
	ref.GoT = x.typeOf(e)
	x.litOf[ref.S] = e
	return ref
}
