package main

// Per-unit driver: entry state, body, exits, postconditions, anchors.

import (
	"fmt"
	"go/ast"
	"go/token"
	"go/types"
	"regexp"
	"sort"
	"strconv"
	"strings"
)

type UnitResult struct {
	Mode         string
	Unit         string
	Pkg          string
	Obls         []*Obligation
	Assumes      []string
	AssumeLabels map[int]string
	Preamble     func() string
	Err          string
	Warnings     []string
	Abstractions []string
	Callees      []string
	Trusted      []string
	AssumedAt    []string
	U            *Universe
}

var anchorRe = regexp.MustCompile(`^(before|after)\s+(call|assign|return|switch|if|go|defer)\s*(.*?)(?:#(\d+))?$`)
var loopAnchorRe = regexp.MustCompile(`^loop\s+(\d+)\s+(end)$`)
var loopAfterRe = regexp.MustCompile(`^(after|before)\s+loop\s+(\d+)$`)

func (x *Unit) numberLoops() {
	n := 0
	ast.Inspect(x.FU.Body, func(node ast.Node) bool {
		switch node.(type) {
		case *ast.ForStmt, *ast.RangeStmt:
			n++
			x.loopOrd[node.(ast.Stmt)] = n
		}
		return true
	})
	x.nLoops = n
}

func exprText(e ast.Expr) string { return types.ExprString(e) }

func isAnchorStmt(n ast.Node) bool {
	switch n.(type) {
	case *ast.AssignStmt, *ast.ExprStmt, *ast.IncDecStmt, *ast.ReturnStmt, *ast.DeclStmt, *ast.DeferStmt, *ast.GoStmt, *ast.IfStmt, *ast.ForStmt, *ast.RangeStmt, *ast.SwitchStmt, *ast.TypeSwitchStmt, *ast.SelectStmt:
		return true
	}
	return false
}

func (x *Unit) resolveAnchors() {
	c := x.FU.Contract
	if c == nil {
		return
	}
	// collect candidate sites in source order with their innermost enclosing statement
	type site struct {
		kind, text string
		stmt       ast.Node
	}
	var sites []site
	var stack []ast.Node
	ast.Inspect(x.FU.Body, func(n ast.Node) bool {
		if n == nil {
			stack = stack[:len(stack)-1]
			return true
		}
		stack = append(stack, n)
		enclosing := func() ast.Node {
			for i := len(stack) - 1; i >= 0; i-- {
				if isAnchorStmt(stack[i]) {
					// an if/for/switch only counts when the site is in its header (cond/tag), not its body
					switch s := stack[i].(type) {
					case *ast.IfStmt:
						if n.Pos() >= s.Body.Pos() {
							continue
						}
						if s.Init != nil && n.Pos() >= s.Init.Pos() && n.End() <= s.Init.End() {
							continue
						}
					case *ast.ForStmt:
						if n.Pos() >= s.Body.Pos() {
							continue
						}
					case *ast.RangeStmt:
						if n.Pos() >= s.Body.Pos() {
							continue
						}
					case *ast.SwitchStmt:
						if n.Pos() >= s.Body.Pos() {
							continue
						}
					case *ast.TypeSwitchStmt:
						if n.Pos() >= s.Body.Pos() {
							continue
						}
					case *ast.SelectStmt:
						if n.Pos() >= s.Body.Pos() {
							continue
						}
					}
					return stack[i]
				}
			}
			return nil
		}
		switch v := n.(type) {
		case *ast.CallExpr:
			sites = append(sites, site{"call", exprText(v.Fun), enclosing()})
		case *ast.AssignStmt:
			for _, l := range v.Lhs {
				sites = append(sites, site{"assign", exprText(l), v})
			}
		case *ast.IncDecStmt:
			sites = append(sites, site{"assign", exprText(v.X), v})
		case *ast.ReturnStmt:
			sites = append(sites, site{"return", "", v})
		case *ast.SwitchStmt:
			sites = append(sites, site{"switch", "", v})
		case *ast.TypeSwitchStmt:
			sites = append(sites, site{"switch", "", v})
		case *ast.IfStmt:
			sites = append(sites, site{"if", "", v})
		case *ast.GoStmt:
			sites = append(sites, site{"go", "", v})
		case *ast.DeferStmt:
			sites = append(sites, site{"defer", "", v})
		}
		return true
	})
	for _, a := range c.Actions {
		anchor := strings.TrimSpace(a.Anchor)
		if anchor == "entry" || anchor == "exit" {
			continue
		}
		if m := loopAnchorRe.FindStringSubmatch(anchor); m != nil {
			ord, _ := strconv.Atoi(m[1])
			for s, o := range x.loopOrd {
				if o == ord {
					x.loopEnd[s] = append(x.loopEnd[s], a)
					x.actionStmt[a] = s
				}
			}
			if x.actionStmt[a] == nil {
				x.fail(nil, "anchor %q: no such loop", anchor)
			}
			continue
		}
		if m := loopAfterRe.FindStringSubmatch(anchor); m != nil {
			ord, _ := strconv.Atoi(m[2])
			for s, o := range x.loopOrd {
				if o == ord {
					if m[1] == "after" {
						x.after[s] = append(x.after[s], a)
					} else {
						x.before[s] = append(x.before[s], a)
					}
					x.actionStmt[a] = s
				}
			}
			if x.actionStmt[a] == nil {
				x.fail(nil, "anchor %q: no such loop", anchor)
			}
			continue
		}
		m := anchorRe.FindStringSubmatch(anchor)
		if m == nil {
			x.fail(nil, "cannot parse anchor %q", anchor)
		}
		when, kind, text := m[1], m[2], strings.TrimSpace(m[3])
		ord := 1
		if m[4] != "" {
			ord, _ = strconv.Atoi(m[4])
		}
		cnt := 0
		var found ast.Node
		for _, s := range sites {
			if s.kind != kind {
				continue
			}
			if st, tt := strings.ReplaceAll(s.text, " ", ""), strings.ReplaceAll(text, " ", ""); (kind == "call" || kind == "assign") && !(st == tt || strings.HasSuffix(st, "."+tt)) {
				continue
			}
			cnt++
			if cnt == ord {
				found = s.stmt
				break
			}
		}
		if found == nil {
			x.fail(nil, "anchor %q not found in %s (anchored code changed)", anchor, x.FU.Name)
		}
		x.actionStmt[a] = found
		if when == "before" {
			x.before[found] = append(x.before[found], a)
		} else {
			x.after[found] = append(x.after[found], a)
		}
	}
}

func (x *Unit) runAction(st *State, a *AnchorAction) {
	if st.dead() {
		return
	}
	node := x.actionStmt[a]
	pos := token.NoPos
	if node != nil {
		if strings.HasPrefix(a.Anchor, "before") {
			pos = node.Pos()
		} else {
			pos = node.End()
		}
		if strings.HasPrefix(a.Anchor, "loop") {
			switch l := node.(type) {
			case *ast.ForStmt:
				pos = l.Body.Rbrace
			case *ast.RangeStmt:
				pos = l.Body.Rbrace
			}
		}
	} else if a.Anchor == "exit" {
		pos = x.FU.Body.Rbrace
	}
	savedPos := x.curScopePos
	x.curScopePos = pos
	defer func() { x.curScopePos = savedPos }()
	switch a.Kind {
	case "assert":
		c := x.specBool(st, a.Clause, nil)
		x.obligeBy(a.Clause.By, st, "assert", a.Clause.Label, x.tagsOr(a.Clause.Tags), c, a.Clause.Src, node)
		x.assumeAs(st, a.Clause.Label, c)
	case "assume":
		c := x.specBool(st, a.Clause, nil)
		x.assume(st, c)
		x.assumedAt = append(x.assumedAt, fmt.Sprintf("%s: assume %s: %s", x.FU.Name, a.Clause.Label, a.Clause.Src))
	case "use":
		env := x.unitEnv(st, nil)
		us := st
		if a.Clause != nil {
			us = x.withCond(st, env.boolOf(a.Clause.Expr))
		}
		x.useLemma(us, env, a.Expr, node)
	case "exhibit":
		// existential introduction with an explicit witness
		env := x.unitEnv(st, nil)
		w := env.eval(a.Expr)
		q, qenv := env.topExists(a.Clause.Expr, 0)
		if q == nil || len(q.Vars) != 1 || q.Vars[0].Name != a.Var {
			x.fail(node, "exhibit: clause is not (a predicate defined as) `exists %s T :: body`", a.Var)
		}
		be := qenv.child()
		be.names[a.Var] = w
		inst := be.boolOf(q.Body)
		x.obligeBy(a.Clause.By, st, "exhibit", a.Clause.Label, x.tagsOr(a.Clause.Tags), inst, a.Clause.Src+"  [witness "+a.Var+" := "+a.Src+"]", node)
		x.assumeAs(st, a.Clause.Label, inst)
		x.assumeAs(st, a.Clause.Label, env.boolOf(a.Clause.Expr))
	case "obtain":
		// existential elimination: prove (exists v :: body), then name a witness
		env := x.unitEnv(st, nil)
		so, gt := env.resolveSort(a.Index)
		x.bvCtr++
		bn := fmt.Sprintf("bv!%s%d", a.Var, x.bvCtr)
		ne := env.child()
		ne.names[a.Var] = TG(bn, so, gt)
		body := ne.boolOf(a.Clause.Expr)
		ex := T("(exists (("+bn+" "+so.Name+")) "+body.S+")", SBool)
		x.obligeBy(a.Clause.By, st, "obtain", a.Clause.Label, x.tagsOr(a.Clause.Tags), ex, a.Clause.Src, node)
		w := x.freshVal("wit:"+a.Var, so, gt)
		x.lets[a.Var] = w
		we := env.child()
		we.names[a.Var] = w
		x.assumeAs(st, a.Clause.Label, we.boolOf(a.Clause.Expr))
	case "ghost":
		if x.pass == 1 {
			defer func() {
				if r := recover(); r != nil {
					if _, ok := r.(unsupportedErr); !ok {
						panic(r)
					}
				}
			}()
		}
		so, ok := x.ghostSorts[a.Var]
		if !ok {
			x.fail(node, "ghost variable %s not declared", a.Var)
		}
		env := x.unitEnv(st, nil)
		v := env.eval(a.Expr)
		if a.IdxE != nil {
			i := env.eval(a.IdxE)
			cur := x.get(st, "gh:"+a.Var)
			cur.Sort = so
			if i.Sort != so.Key && so.Key == SIface && i.GoT != nil {
				i = x.U.Box(i, i.GoT)
			}
			x.set(st, "gh:"+a.Var, Store(cur, i, v))
		} else {
			if v.Sort != so && v.Sort.Name != so.Name {
				x.fail(node, "ghost %s: sort mismatch %s vs %s", a.Var, v.Sort.Name, so.Name)
			}
			x.set(st, "gh:"+a.Var, v)
		}
	}
}

// Verify runs the unit twice: the first pass only discovers the heap/trace components that exist, so that the
// second pass can havoc all of them at loop heads (a component first touched inside a loop body would otherwise
// keep its pre-loop value at the loop head).
func (x *Unit) Verify() (res *UnitResult) {
	x.pass = 1
	first := x.verifyOnce()
	if first.Err != "" {
		return first
	}
	x.resetForSecondPass()
	x.pass = 2
	return x.verifyOnce()
}

func (x *Unit) resetForSecondPass() {
	x.assumes = nil
	x.assumeLabels = nil
	x.obls = nil
	x.compAt = map[string]Term{}
	x.epochCtr = 0
	x.epochOrigins = map[int][]origin{}
	x.havocParent = map[int]int{}
	x.epochAlloc = map[int]Term{}
	x.loopOrd = map[ast.Stmt]int{}
	x.before = map[ast.Node][]*AnchorAction{}
	x.after = map[ast.Node][]*AnchorAction{}
	x.loopEnd = map[ast.Node][]*AnchorAction{}
	x.actionStmt = map[*AnchorAction]ast.Node{}
	x.warnings = nil
	x.deferCtr = 0
	x.inlineDepth = 0
	x.inlineStack = nil
	x.nameCtr = map[string]int{}
	x.lets = map[string]Term{}
	x.lastGhost = map[string]Term{}
	x.seenStack, x.idxStack, x.rkStack = nil, nil, nil
	x.callOrd = map[string]int{}
	x.closureBind = map[types.Object]*ast.FuncLit{}
	x.usedActions = map[*AnchorAction]bool{}
	x.usedLoops = map[string]bool{}
	x.isParam = map[types.Object]bool{}
	x.bvCtr = 0
	x.assumedAt = nil
	x.modStack = nil
	x.newErrs, x.newCtxs = nil, nil
	x.U.fresh = 0
	// forget every declaration of the discovery pass (sorts are kept): names are re-issued, possibly at other sorts
	x.U.decls = nil
	x.U.declared = map[string]bool{}
	x.U.strLits = map[string]string{}
	x.U.axioms = nil
	x.U.ifacePred = map[string]*types.Interface{}
	x.U.ifaceName = map[string]string{}
	x.loopStmtStack = nil
	x.retOrd = 0
	x.covers = nil
}

func (x *Unit) verifyOnce() (res *UnitResult) {
	res = &UnitResult{Unit: x.FU.Name, Pkg: x.FU.Pkg.Name, U: x.U, Mode: x.mode}
	defer func() {
		if r := recover(); r != nil {
			if ue, ok := r.(unsupportedErr); ok {
				res.Err = fmt.Sprintf("%s (pass %d)", ue.msg, x.pass)
				res.Obls = x.obls
				res.Assumes, res.AssumeLabels = x.assumes, x.assumeLabels
				return
			}
			panic(r)
		}
	}()
	c := x.FU.Contract
	x.numberLoops()
	x.resolveAnchors()
	st := &State{pc: True, vars: map[types.Object]Term{}, heap: map[string]Term{}}
	x.entry = st
	fr := &frame{unitTop: true}
	x.fr = fr
	x.topFrame = fr
	// receiver and parameters
	bindParam := func(id *ast.Ident) {
		if id == nil || id.Name == "_" {
			return
		}
		obj, ok := x.info.Defs[id].(*types.Var)
		if !ok {
			return
		}
		s := x.U.SortOf(obj.Type())
		t := x.U.Const(q(obj.Name()+"@in"), s)
		t.GoT = obj.Type()
		x.typeInv(t)
		st.vars[obj] = t
		x.isParam[obj] = true
	}
	if x.FU.Recv != nil {
		for _, f := range x.FU.Recv.List {
			for _, n := range f.Names {
				bindParam(n)
			}
		}
	}
	for _, f := range x.FU.Type.Params.List {
		for _, n := range f.Names {
			bindParam(n)
		}
	}
	x.setupResults(st, fr, x.FU.Type, x.FU.Sig)
	x.regComp("alloc", SInt)
	x.assumes = append(x.assumes, "(>= "+x.initial("alloc", 0).S+" 0)")
	// all references that exist at entry are allocated: parameters are <= alloc (pointers, maps)
	for obj, t := range st.vars {
		if t.Sort == SInt {
			switch obj.Type().Underlying().(type) {
			case *types.Pointer, *types.Map, *types.Signature, *types.Chan:
				x.assumes = append(x.assumes, "(and (>= "+t.S+" 0) (<= "+t.S+" "+x.initial("alloc", 0).S+"))")
			}
		}
	}
	x.entry = st.clone()
	x.entry.heap = st.heap // share: lazily materialised initial components are identical
	x.curScopePos = x.FU.Body.Lbrace + 1
	if c != nil {
		for _, g := range c.Ghosts {
			env := x.unitEnv(st, nil)
			so, gt := env.resolveSort(g.Type)
			x.ghostSorts[g.Name] = so
			x.ghostTypes[g.Name] = gt
			x.regComp("gh:"+g.Name, so)
			if g.Init != "" {
				e, err := ParseSpec(g.Init)
				if err != nil {
					x.fail(nil, "%v", err)
				}
				v := env.eval(e)
				x.set(st, "gh:"+g.Name, v)
			} else if literalZero(so) {
				x.set(st, "gh:"+g.Name, x.U.Zero(so))
			}
		}
		for _, r := range c.Requires {
			x.clausePos[r] = x.FU.Body.Lbrace + 1
			x.assumeAs(st, r.Label, x.specBool(st, r, nil))
		}
		for _, r := range c.Monitor {
			x.assumeAs(st, r.Label, x.specBool(st, r, nil))
			x.assumedAt = append(x.assumedAt, fmt.Sprintf("%s: type invariant %s assumed at entry (re-established at every exit of every method; fields are package-private)", x.FU.Name, r.Label))
		}
		x.assumeAxioms(st)
		for _, l := range c.Lets {
			e, err := ParseSpec(l.Init)
			if err != nil {
				x.fail(nil, "%v", err)
			}
			env := x.unitEnv(st, nil)
			v := env.eval(e)
			x.lets[l.Name] = x.define("let:"+l.Name, v)
		}
		for _, a := range c.Actions {
			if a.Anchor == "entry" {
				x.usedActions[a] = true
				x.runAction(st, a)
			}
		}
	}
	x.entry = st.clone()
	body := st.clone()
	out := x.block(body, x.FU.Body.List)
	if !out.dead() {
		if x.pass == 2 {
			x.monitorsAtReturn(out, "end", x.FU.Body)
		}
		fr.returns = append(fr.returns, out)
	}
	normal, panicking := x.finishFrame(fr)
	x.curScopePos = x.FU.Body.Rbrace
	if c != nil {
		for _, a := range c.Actions {
			if a.Anchor == "exit" {
				x.usedActions[a] = true
				x.runAction(normal, a)
			}
		}
		for _, en := range c.Monitor {
			if x.pass == 1 {
				continue
			}
			if en.EachReturn {
				continue // proved at every return statement (monitorsAtReturn)
			}
			env := x.unitEnv(normal, nil)
			env.paramOld = true
			x.obligeBy(en.By, normal, "typeinv", en.Label, x.tagsOr(en.Tags), env.boolOf(en.Expr), en.Src, x.FU.Body)
		}
		for _, en := range c.Ensures {
			if en.EachReturn {
				continue // proved at every return statement (monitorsAtReturn)
			}
			env := x.unitEnv(normal, nil)
			env.paramOld = true
			if x.pass == 1 {
				continue
			}
			cond := env.boolOf(en.Expr)
			x.obligeBy(en.By, normal, "post", en.Label, en.Tags, cond, en.Src, x.FU.Body)
		}
		// callers (and loops around calls) keep their lock state across a call: every unit under contract that touches a lock
		// must return with the lock state it was entered with
		if x.pass != 1 {
			if _, ok := x.compSorts["$nlocks"]; ok && !c.NoCheck && !c.Pure {
				x.oblige(normal, "locknest", "locks_balanced_at_exit", x.concTagsLock(), Eq(x.get(normal, "$nlocks"), x.initial("$nlocks", 0)), "the function returns holding exactly the locks it was entered with", x.FU.Body)
			}
		}
		if len(c.Panics) > 0 || c.NoPanic {
			for _, en := range c.Panics {
				env := x.unitEnv(panicking, nil)
				env.paramOld = true
				cond := env.boolOf(en.Expr)
				x.oblige(panicking, "panicpost", en.Label, en.Tags, cond, en.Src, x.FU.Body)
			}
			// callers assume a panic edge only for callees declared may_panic / interferes: every other contract is
			// checked for "no panic escapes", declared or not
			if c.NoPanic || (!c.MayPanic && !c.Interferes && !c.NoCheck && !c.Pure && len(c.Panics) == 0) {
				var sites []string
				for k := range x.panicSites {
					sites = append(sites, k)
				}
				sort.Strings(sites)
				x.oblige(panicking, "nopanic", "no_panic_escapes", x.tagsOr(c.SafetyTags), False, "no panic escapes this function; panic sources: "+strings.Join(sites, "; "), x.FU.Body)
			}
		}
		// unused contract parts are errors (anchored code vanished)
		for _, a := range c.Actions {
			if !x.usedActions[a] && a.Kind != "ghost" {
				// anchor inside dead code is fine only if pc was false; flag otherwise
				x.warn("action at %q never executed", a.Anchor)
			}
		}
		for id := range c.Loops {
			if !x.usedLoops[id] {
				x.fail(nil, "contract mentions loop %s but %s has %d loops", id, x.FU.Name, x.nLoops)
			}
		}
	}
	// vacuity cover: the normal exit must be reachable
	cov := &Obligation{Name: x.FU.Pkg.Name + "." + x.FU.Name + "#cover[exit_reachable]", Kind: "cover", Label: "exit_reachable", PC: Or(normal.pc, panicking.pc), Cond: False, NAssume: len(x.assumes), Src: "some exit is reachable under the preconditions (must NOT be provable unreachable)", Unit: x.FU.Name, IsCover: true}
	x.obls = append(x.obls, cov)
	x.obls = append(x.obls, x.covers...)
	res.Obls = x.obls
	res.Assumes, res.AssumeLabels = x.assumes, x.assumeLabels
	res.Warnings = x.warnings
	for a := range x.abstractions {
		res.Abstractions = append(res.Abstractions, a)
	}
	sort.Strings(res.Abstractions)
	for k := range x.callees {
		res.Callees = append(res.Callees, k)
	}
	sort.Strings(res.Callees)
	for k := range x.trusted {
		res.Trusted = append(res.Trusted, k)
	}
	sort.Strings(res.Trusted)
	res.AssumedAt = x.assumedAt
	return res
}

// Query renders the SMT-LIB script for one obligation.
func (res *UnitResult) Query(o *Obligation, seed int) string {
	var b strings.Builder
	b.WriteString("(set-option :produce-models true)\n")
	fmt.Fprintf(&b, "(set-option :random-seed %d)\n", seed)
	b.WriteString("(set-logic ALL)\n")
	b.WriteString(res.U.Preamble())
	for i, a := range res.Assumes[:o.NAssume] {
		if !res.keepAssume(o, i) {
			continue
		}
		b.WriteString("(assert ")
		b.WriteString(a)
		b.WriteString(")\n")
	}
	fmt.Fprintf(&b, "(assert %s)\n", o.PC.S)
	fmt.Fprintf(&b, "(assert (not %s))\n", o.Cond.S)
	b.WriteString("(check-sat)\n")
	return b.String()
}

// assumeAxioms assumes the contract-level axioms (trusted; listed in the evidence) in the entry state.
// Axioms may only read immutable heap components, so assuming them once is enough.
func (x *Unit) assumeAxioms(st *State) {
	for _, cs := range x.P.Contracts {
		for _, a := range cs.Axioms {
			func() {
				defer func() {
					if r := recover(); r != nil {
						if _, ok := r.(unsupportedErr); ok {
							return
						}
						panic(r)
					}
				}()
				env := &specEnv{x: x, cur: st, old: st, names: map[string]Term{}, noLocals: true, typePkg: cs.PkgPath}
				x.assume(st, env.boolOf(a.Expr))
				x.assumedAt = append(x.assumedAt, "axiom "+a.Label+": "+a.Src)
			}()
		}
	}
}

// VerifyLemma checks a pure lemma: fresh variables, assume requires (+axioms), prove ensures.
func VerifyLemma(p *Program, pkgPath string, lm *LemmaDecl) *UnitResult {
	pk := p.Pkgs[pkgPath]
	// any function of the package serves as the syntactic context for type resolution
	var ctx *FuncUnit
	var names []string
	for k, u := range p.Units {
		if u.Pkg == pk && u.Lit == nil {
			names = append(names, k)
		}
	}
	sort.Strings(names)
	if len(names) == 0 {
		return &UnitResult{Unit: "lemma." + lm.Name, Pkg: pk.Name, Err: "no context function"}
	}
	ctx = p.Units[names[0]]
	fu := &FuncUnit{Name: "lemma." + lm.Name, Pkg: pk, Decl: ctx.Decl, Body: ctx.Body, Type: ctx.Type, Sig: ctx.Sig}
	x := NewUnit(p, fu)
	x.pass = 2
	res := &UnitResult{Unit: fu.Name, Pkg: pk.Name, U: x.U}
	defer func() {
		if r := recover(); r != nil {
			if ue, ok := r.(unsupportedErr); ok {
				res.Err = ue.msg
				return
			}
			panic(r)
		}
	}()
	st := &State{pc: True, vars: map[types.Object]Term{}, heap: map[string]Term{}}
	x.entry = st
	x.regComp("alloc", SInt)
	names2 := map[string]Term{}
	env0 := &specEnv{x: x, cur: st, old: st, names: names2, noLocals: true, typePkg: pkgPath}
	for _, v := range lm.Vars {
		so, gt := env0.resolveSort(v.Type)
		c := x.U.Const(q("lv:"+v.Name), so)
		c.GoT = gt
		x.typeInv(c)
		names2[v.Name] = c
	}
	x.assumeAxioms(st)
	for _, r := range lm.Requires {
		x.assumeAs(st, r.Label, env0.boolOf(r.Expr))
	}
	if lm.Induct != "" {
		for _, r := range lm.Requires {
			if mentionsIdent(r.Expr, lm.Induct) {
				x.fail(nil, "lemma %s: hypothesis %s mentions the induction variable %s (the induction step would be unsound)", lm.Name, r.Label, lm.Induct)
			}
		}
	}
	nHyp := len(x.assumes)
	for _, u := range lm.Uses {
		ue, err := ParseSpec(u)
		if err != nil {
			x.fail(nil, "%v", err)
		}
		x.useLemma(st, env0, ue, nil)
	}
	for _, en := range lm.Ensures {
		tags := en.Tags
		if len(tags) == 0 {
			tags = lm.Tags
		}
		if lm.Assumed != "" {
			// not proved: only the satisfiability of its hypotheses is checked; listed as an assumption wherever it is used
			_ = env0.boolOf(en.Expr) // must at least be well-formed
			continue
		}
		if lm.Induct == "" {
			x.obligeBy(en.By, st, "lemma", en.Label, tags, env0.boolOf(en.Expr), en.Src, nil)
			continue
		}
		// induction on lm.Induct: base case 0, step from i >= 0 to i+1
		iv, ok := names2[lm.Induct]
		if !ok || iv.Sort != SInt {
			x.fail(nil, "lemma %s: induction variable %s is not an int var", lm.Name, lm.Induct)
		}
		base := env0.child()
		base.names[lm.Induct] = T("0", SInt)
		x.obligeBy(en.By, st, "lemma", en.Label+".base", tags, base.boolOf(en.Expr), en.Src, nil)
		hyp := st.clone()
		x.assumeAs(hyp, en.Label, And(T("(>= "+iv.S+" 0)", SBool), env0.boolOf(en.Expr)))
		step := env0.child()
		step.cur = hyp
		step.names[lm.Induct] = T("(+ "+iv.S+" 1)", SInt)
		x.obligeBy(en.By, hyp, "lemma", en.Label+".step", tags, step.boolOf(en.Expr), en.Src, nil)
	}
	cov := &Obligation{Name: pk.Name + "." + fu.Name + "#cover[hypotheses_satisfiable]", Kind: "cover", Label: "hypotheses_satisfiable", PC: True, Cond: False, NAssume: nHyp, Src: "the lemma's hypotheses are not contradictory", Unit: fu.Name, IsCover: true}
	x.obls = append(x.obls, cov)
	res.Obls = x.obls
	res.Assumes, res.AssumeLabels = x.assumes, x.assumeLabels
	if lm.Assumed != "" {
		x.assumedAt = append(x.assumedAt, fmt.Sprintf("lemma %s is ASSUMED, not proved: %s", lm.Name, lm.Assumed))
	}
	res.AssumedAt = x.assumedAt
	return res
}

// literalZero: the zero value of the sort is a closed literal (cvc5 accepts only values in constant arrays);
// ghost arrays of other element sorts start unconstrained.
func literalZero(s *Sort) bool {
	switch s.Kind {
	case KInt, KBool:
		return true
	case KArray:
		return s.Elem != nil && literalZero(s.Elem)
	case KStr, KIface, KStruct, KSlice, KOpaque:
		return s.Kind != KArray && s.Kind != KStruct && s.Kind != KSlice && s.Kind != KOpaque && s.Kind != KStr
	}
	return false
}

// keepAssume: an obligation with a `by(...)` hint sees every quantifier-free assumption (definitions, path conditions,
// ground facts) but only those quantified assumptions whose clause label is listed. Dropping assumptions is always sound.
func (res *UnitResult) keepAssume(o *Obligation, i int) bool {
	if o.By == nil {
		return true
	}
	a := res.Assumes[i]
	if !strings.Contains(a, "(forall ") && !strings.Contains(a, "(exists ") {
		return true
	}
	lab, labelled := res.AssumeLabels[i]
	if !labelled || lab == "" {
		return true // structural definition or a fact the engine itself derived (range exit, frames, allocation)
	}
	for _, l := range o.By {
		if l == lab {
			return true
		}
	}
	return false
}

func (x *Unit) findLemma(name string) *LemmaDecl {
	if cs, ok := x.P.Contracts[x.FU.Pkg.PkgPath]; ok {
		for _, lm := range cs.Lemmas {
			if lm.Name == name {
				return lm
			}
		}
	}
	for _, cs := range x.P.Contracts {
		for _, lm := range cs.Lemmas {
			if lm.Name == name {
				return lm
			}
		}
	}
	return nil
}

// useLemma instantiates a lemma that is proved as its own unit: the instance of its hypotheses is an obligation here,
// the instance of its conclusions is then assumed. The lemma speaks about an arbitrary heap, so instantiating it at the
// current state is sound.
func (x *Unit) useLemma(st *State, env *specEnv, call SExpr, node ast.Node) {
	sc, ok := call.(*SCall)
	if !ok {
		x.fail(node, "use: expected lemma(args)")
	}
	lm := x.findLemma(sc.Fn)
	if lm == nil {
		x.fail(node, "use: no lemma %s", sc.Fn)
	}
	if len(sc.Args) != len(lm.Vars) {
		x.fail(node, "use %s: %d arguments for %d lemma variables", lm.Name, len(sc.Args), len(lm.Vars))
	}
	le := env.child()
	le.names = map[string]Term{}
	le.noLocals = true
	le.typePkg = lm.Pkg
	anyInduct := false
	for i, v := range lm.Vars {
		if id, isId := sc.Args[i].(*SIdent); isId && id.Name == "any" {
			// the conclusion is wanted for every value of the induction variable: the lemma holds for all i >= 0 and its
			// hypotheses do not mention i, so the universally quantified instance is as sound as a single one
			if v.Name != lm.Induct || lm.Induct == "" {
				x.fail(node, "use %s: `any` is allowed only for the induction variable", lm.Name)
			}
			anyInduct = true
			le.names[v.Name] = T("bv!any!"+lm.Name, SInt)
			continue
		}
		t := env.eval(sc.Args[i])
		if so, gt := safeResolve(le, v.Type); so != nil {
			if so != t.Sort && so.Name != t.Sort.Name {
				x.fail(node, "use %s: argument %d has sort %s, lemma variable %s has %s", lm.Name, i+1, t.Sort.Name, v.Name, so.Name)
			}
			if t.GoT == nil {
				t.GoT = gt
			}
		}
		le.names[v.Name] = t
	}
	for _, r := range lm.Requires {
		x.oblige(st, "lemma.pre", lm.Name+"."+r.Label, x.tagsOr(lm.Tags), le.boolOf(r.Expr), r.Src, node)
	}
	if lm.Induct != "" && !anyInduct {
		x.oblige(st, "lemma.pre", lm.Name+".induction_variable_nonnegative", x.tagsOr(lm.Tags), T("(>= "+le.names[lm.Induct].S+" 0)", SBool), lm.Induct+" >= 0", node)
	}
	for _, en := range lm.Ensures {
		c := le.boolOf(en.Expr)
		if anyInduct {
			bv := le.names[lm.Induct].S
			c = T("(forall (("+bv+" Int)) (=> (>= "+bv+" 0) "+c.S+"))", SBool)
		}
		x.assumeAs(st, lm.Name, c)
	}
	if lm.Assumed != "" {
		x.assumedAt = append(x.assumedAt, fmt.Sprintf("%s: lemma %s instantiated -- ASSUMED, not proved: %s", x.FU.Name, lm.Name, lm.Assumed))
	} else {
		x.assumedAt = append(x.assumedAt, fmt.Sprintf("%s: lemma %s instantiated (proved as unit lemma.%s)", x.FU.Name, lm.Name, lm.Name))
	}
}

// monitorsAtReturn proves the type-invariant clauses marked each_return in the state of one return statement. Only
// lock releases may be deferred in such a function, so nothing the invariant talks about changes between the return
// statement and the exit.
func (x *Unit) monitorsAtReturn(st *State, where string, node ast.Node) {
	c := x.FU.Contract
	if c == nil || st.dead() {
		return
	}
	for _, en := range c.Monitor {
		if !en.EachReturn {
			continue
		}
		ast.Inspect(x.FU.Body, func(n ast.Node) bool {
			if _, ok := n.(*ast.FuncLit); ok {
				return false
			}
			if d, ok := n.(*ast.DeferStmt); ok {
				sel, _ := d.Call.Fun.(*ast.SelectorExpr)
				if sel == nil || (sel.Sel.Name != "Unlock" && sel.Sel.Name != "RUnlock") {
					x.fail(d, "each_return monitor in a function that defers something other than a lock release")
				}
			}
			return true
		})
		env := x.unitEnv(st, nil)
		env.paramOld = true
		cond := env.boolOf(en.Expr)
		x.obligeBy(en.By, st, "typeinv", en.Label+"."+where, x.tagsOr(en.Tags), cond, en.Src, node)
		x.assumeAs(st, en.Label, cond)
	}
	// postconditions marked each_return are proved in the state of each return statement as well
	for _, en := range c.Ensures {
		if !en.EachReturn {
			continue
		}
		x.onlyUnlockDeferred()
		env := x.unitEnv(st, nil)
		env.paramOld = true
		cond := env.boolOf(en.Expr)
		x.obligeBy(en.By, st, "post", en.Label+"."+where, en.Tags, cond, en.Src, node)
	}
}

func (x *Unit) onlyUnlockDeferred() {
	ast.Inspect(x.FU.Body, func(n ast.Node) bool {
		if _, ok := n.(*ast.FuncLit); ok {
			return false
		}
		if d, ok := n.(*ast.DeferStmt); ok {
			sel, _ := d.Call.Fun.(*ast.SelectorExpr)
			if sel == nil || (sel.Sel.Name != "Unlock" && sel.Sel.Name != "RUnlock") {
				x.fail(d, "each_return clause in a function that defers something other than a lock release")
			}
		}
		return true
	})
}
