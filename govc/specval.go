package main

// Evaluation of specification expressions to SMT terms.

import (
	"fmt"
	"go/ast"
	"go/token"
	"go/types"
	"strconv"
	"strings"
)

type specEnv struct {
	x        *Unit
	cur, old *State
	names    map[string]Term // explicit bindings (params of a callee contract, bound vars, extras)
	noLocals bool            // do not resolve against the unit's own locals (callee contract at call site)
	scopePos token.Pos       // position for local-variable lookup
	paramOld bool            // parameter names denote entry values (ensures clauses)
	typePkg  string          // package in which type names of the clause are resolved (home of the pred / contract)
	depth    int
	qdepth   int // nesting depth of quantifiers: bound variables are named by depth, so that two evaluations of one clause give identical formulas (z3 does not identify alpha-equivalent quantifiers)
}

func (e *specEnv) child() *specEnv {
	n := *e
	n.names = map[string]Term{}
	for k, v := range e.names {
		n.names[k] = v
	}
	return &n
}

func (e *specEnv) fail(format string, args ...any) {
	panic(unsupportedErr{"spec: " + fmt.Sprintf(format, args...)})
}

func (x *Unit) specBool(st *State, c *Clause, extra map[string]Term) (res Term) {
	if x.pass == 1 {
		// discovery pass: obligations are discarded; tolerate references to components that do not exist yet
		defer func() {
			if r := recover(); r != nil {
				if _, ok := r.(unsupportedErr); ok {
					res = True
					return
				}
				panic(r)
			}
		}()
	}
	env := x.unitEnv(st, extra)
	t := env.eval(c.Expr)
	if t.Sort != SBool {
		env.fail("%s:%d: clause is not boolean: %s", c.File, c.Line, c.Src)
	}
	return t
}

func (x *Unit) specTerm(st *State, c *Clause, extra map[string]Term) Term {
	env := x.unitEnv(st, extra)
	return env.eval(c.Expr)
}

func (x *Unit) unitEnv(st *State, extra map[string]Term) *specEnv {
	env := &specEnv{x: x, cur: st, old: x.entry, names: map[string]Term{}, scopePos: x.curScopePos}
	for k, v := range x.lets {
		env.names[k] = v
	}
	if len(x.seenStack) > 0 {
		env.names["seen"] = x.seenStack[len(x.seenStack)-1]
	}
	if len(x.rkStack) > 0 {
		env.names["rangekey"] = x.rkStack[len(x.rkStack)-1]
	}
	if len(x.idxStack) > 0 {
		env.names["idx"] = x.idxStack[len(x.idxStack)-1]
	}
	for k, v := range extra {
		env.names[k] = v
	}
	return env
}

func (e *specEnv) boolOf(s SExpr) Term {
	t := e.eval(s)
	if t.Sort != SBool {
		e.fail("expected boolean")
	}
	return t
}

func (e *specEnv) lookup(name string) (Term, bool) {
	if t, ok := e.names[name]; ok {
		return t, true
	}
	x := e.x
	switch name {
	case "true":
		return True, true
	case "false":
		return False, true
	case "nil":
		return TG("nilI", SIface, types.Typ[types.UntypedNil]), true
	case "panicking":
		x.regComp("$panicking", SBool)
		return x.get(e.cur, "$panicking"), true
	case "panicval":
		x.regComp("$panicval", SIface)
		return x.get(e.cur, "$panicval"), true
	case "alloc":
		x.regComp("alloc", SInt)
		return x.get(e.cur, "alloc"), true
	case "clock":
		x.regComp("clk", SInt)
		return x.get(e.cur, "clk"), true
	}
	// ghost variable
	if s, ok := x.ghostSorts[name]; ok {
		t := x.get(e.cur, "gh:"+name)
		t.Sort = s
		t.GoT = x.ghostTypes[name]
		return t, true
	}
	if e.noLocals {
		// package-level names only
		return e.lookupPkg(name)
	}
	// results of this unit (a local variable that happens to be called "result" takes precedence over the alias)
	localShadows := false
	if name == "result" && !e.paramOld {
		if obj := x.lookupLocal(name, e.scopePos); obj != nil {
			if v, ok := obj.(*types.Var); ok && !x.isPkgLevel(v) {
				if _, bound := e.cur.vars[v]; bound {
					localShadows = true
				}
			}
		}
	}
	if x.topFrame != nil && !localShadows {
		for i, obj := range x.topFrame.results {
			if obj.Name() == name || (name == "result" && i == 0) || name == fmt.Sprintf("result%d", i) {
				if t, ok := e.cur.vars[obj]; ok {
					t.GoT = x.topFrame.resTypes[i]
					return t, true
				}
			}
		}
	}
	// params / receiver / locals by scope
	if obj := x.lookupLocal(name, e.scopePos); obj != nil {
		if v, ok := obj.(*types.Var); ok {
			if e.paramOld && x.isParam[v] && x.entry != nil {
				if t, ok := x.entry.vars[v]; ok {
					t.GoT = v.Type()
					return t, true
				}
			}
			if x.isPkgLevel(v) {
				return x.readVar(e.cur, v), true
			}
			if t, ok := e.cur.vars[v]; ok {
				t.GoT = v.Type()
				return t, true
			}
			if x.isParam[v] || x.FU.Lit != nil {
				return x.readVar(e.cur, v), true
			}
			var have []string
			for o := range e.cur.vars {
				have = append(have, fmt.Sprintf("%s@%d", o.Name(), o.Pos()))
			}
			e.fail("variable %s (decl pos %d) is not bound at this point; bound: %v dead=%v", name, v.Pos(), have, e.cur.dead())
		}
		if c, ok := obj.(*types.Const); ok {
			if t, ok := x.constTerm(types.TypeAndValue{Type: c.Type(), Value: c.Val()}); ok {
				return t, true
			}
		}
	}
	return e.lookupPkg(name)
}

func (e *specEnv) lookupPkg(name string) (Term, bool) {
	x := e.x
	for _, pk := range append([]*types.Package{x.FU.Pkg.Types}, x.otherPkgs()...) {
		if obj := pk.Scope().Lookup(name); obj != nil {
			switch o := obj.(type) {
			case *types.Var:
				return x.readVar(e.cur, o), true
			case *types.Const:
				if t, ok := x.constTerm(types.TypeAndValue{Type: o.Type(), Value: o.Val()}); ok {
					return t, true
				}
			}
		}
	}
	return Term{}, false
}

func (x *Unit) otherPkgs() []*types.Package {
	var out []*types.Package
	for _, pk := range x.P.Pkgs {
		if pk.Types != x.FU.Pkg.Types {
			out = append(out, pk.Types)
		}
	}
	return out
}

func (x *Unit) lookupLocal(name string, pos token.Pos) types.Object {
	if pos == token.NoPos {
		pos = x.FU.Body.Lbrace + 1
	}
	sc := x.FU.Pkg.Types.Scope().Innermost(pos)
	if sc == nil {
		return nil
	}
	_, obj := sc.LookupParent(name, pos)
	if obj != nil && obj.Parent() == types.Universe {
		return nil
	}
	return obj
}

func (e *specEnv) resolveSort(ts string) (*Sort, types.Type) {
	x := e.x
	ts = strings.TrimSpace(ts)
	switch {
	case strings.HasPrefix(ts, "set[") && strings.HasSuffix(ts, "]"):
		ks, _ := e.resolveSort(ts[4 : len(ts)-1])
		return x.U.arraySort(ks, SBool), nil
	case strings.HasPrefix(ts, "seq[") && strings.HasSuffix(ts, "]"):
		es, _ := e.resolveSort(ts[4 : len(ts)-1])
		return x.U.arraySort(SInt, es), nil
	case strings.HasPrefix(ts, "fmap["):
		// fmap[K]V : total spec map
		depth := 0
		for i := 4; i < len(ts); i++ {
			if ts[i] == '[' {
				depth++
			} else if ts[i] == ']' {
				depth--
				if depth == 0 {
					ks, _ := e.resolveSort(ts[5:i])
					vs, _ := e.resolveSort(ts[i+1:])
					return x.U.arraySort(ks, vs), nil
				}
			}
		}
	}
	t := x.resolveTypeIn(e.typePkg, ts)
	return x.U.SortOf(t), t
}

func (e *specEnv) eval(s SExpr) Term {
	x := e.x
	switch s := s.(type) {
	case *SIntLit:
		n, _ := strconv.ParseInt(s.V, 10, 64)
		return IntLit(n)
	case *SStrLit:
		return x.U.StrLit(s.V)
	case *SIdent:
		if t, ok := e.lookup(s.Name); ok {
			return t
		}
		e.fail("unknown identifier %q", s.Name)
	case *SUnary:
		v := e.eval(s.X)
		if s.Op == "!" {
			return Not(v)
		}
		return T("(- "+v.S+")", SInt)
	case *SBinary:
		return e.binary(s)
	case *SField:
		// qualified package var? (pkg.Name)
		if id, ok := s.X.(*SIdent); ok {
			if _, bound := e.lookup(id.Name); !bound {
				for _, pk := range x.P.Pkgs {
					if pk.Name == id.Name {
						if obj := pk.Types.Scope().Lookup(s.Name); obj != nil {
							if v, ok := obj.(*types.Var); ok {
								return x.readVar(e.cur, v)
							}
							if c, ok := obj.(*types.Const); ok {
								if t, ok := x.constTerm(types.TypeAndValue{Type: c.Type(), Value: c.Val()}); ok {
									return t
								}
							}
						}
					}
				}
			}
		}
		base := e.eval(s.X)
		return e.field(base, s.Name)
	case *SIndex:
		base := e.eval(s.X)
		idx := e.eval(s.I)
		return e.index(base, idx)
	case *SSlice:
		e.fail("slice expressions are not supported in specs")
	case *SQuant:
		return e.quant(s)
	case *SCall:
		return e.callSpec(s)
	}
	e.fail("unsupported spec expression %T", s)
	return Term{}
}

func (e *specEnv) coerce(a, b Term) (Term, Term) {
	x := e.x
	// nil against pointers/maps/slices
	if b.S == "nilI" && a.Sort != SIface {
		return a, x.U.Zero(a.Sort)
	}
	if a.S == "nilI" && b.Sort != SIface {
		return x.U.Zero(b.Sort), b
	}
	if a.Sort == SIface && b.Sort != SIface && b.GoT != nil {
		return a, x.U.Box(b, b.GoT)
	}
	if b.Sort == SIface && a.Sort != SIface && a.GoT != nil {
		return x.U.Box(a, a.GoT), b
	}
	return a, b
}

func (e *specEnv) binary(s *SBinary) Term {
	x := e.x
	switch s.Op {
	case "==>":
		return Implies(e.boolOf(s.X), e.boolOf(s.Y))
	case "<==>":
		return Eq(e.boolOf(s.X), e.boolOf(s.Y))
	case "&&":
		return And(e.boolOf(s.X), e.boolOf(s.Y))
	case "||":
		return Or(e.boolOf(s.X), e.boolOf(s.Y))
	case "in":
		k := e.eval(s.X)
		m := e.eval(s.Y)
		if m.Sort.Kind == KArray && m.Sort.Elem == SBool {
			if k.Sort != m.Sort.Key && m.Sort.Key == SIface && k.GoT != nil {
				k = x.U.Box(k, k.GoT)
			}
			return Select(m, k)
		}
		if m.GoT != nil {
			if mt, ok := m.GoT.Underlying().(*types.Map); ok {
				dom, _, _, ks, _ := x.mapComps(mt)
				if k.Sort != ks && ks == SIface && k.GoT != nil {
					k = x.U.Box(k, k.GoT)
				}
				return And(Not(Eq(m, T("0", SInt))), Select(Select(x.get(e.cur, dom), m), k))
			}
		}
		e.fail("'in' on non-map")
	}
	a, b := e.eval(s.X), e.eval(s.Y)
	switch s.Op {
	case "==", "!=":
		// nil comparisons for slices
		if b.S == "nilI" && a.Sort.Kind == KSlice {
			r := x.U.SliceNil(a)
			if s.Op == "!=" {
				return Not(r)
			}
			return r
		}
		a, b = e.coerce(a, b)
		if a.Sort != b.Sort && a.Sort.Name != b.Sort.Name {
			e.fail("comparison of different sorts %s and %s", a.Sort.Name, b.Sort.Name)
		}
		r := Eq(a, b)
		if s.Op == "!=" {
			return Not(r)
		}
		return r
	case "<", "<=", ">", ">=":
		return T("("+s.Op+" "+a.S+" "+b.S+")", SBool)
	case "+", "-", "*":
		return T("("+s.Op+" "+a.S+" "+b.S+")", SInt)
	case "/":
		return T("(div "+a.S+" "+b.S+")", SInt)
	case "%":
		return T("(mod "+a.S+" "+b.S+")", SInt)
	}
	e.fail("unsupported operator %s", s.Op)
	return Term{}
}

func (e *specEnv) field(base Term, name string) Term {
	x := e.x
	if base.GoT != nil {
		if p, ok := base.GoT.Underlying().(*types.Pointer); ok {
			if _, ok := p.Elem().Underlying().(*types.Struct); ok {
				// sync.Map fields: the model map reference
				su := p.Elem().Underlying().(*types.Struct)
				for i := 0; i < su.NumFields(); i++ {
					if su.Field(i).Name() == name && isSyncType(su.Field(i).Type()) {
						tn := types.Unalias(su.Field(i).Type()).(*types.Named).Obj().Name()
						if tn == "Map" {
							comp := x.regComp("F:"+recvTypeName(p.Elem())+"."+name, x.U.arraySort(SInt, SInt))
							r := Select(x.get(e.cur, comp), base)
							r.GoT = types.NewMap(types.NewInterfaceType(nil, nil), types.NewInterfaceType(nil, nil))
							return r
						}
						// mutex: lock state
						lc := x.lockComp(p.Elem(), name)
						return Select(x.get(e.cur, lc), base)
					}
				}
				comp, fs, ft := x.fieldComp(p.Elem(), name)
				r := Select(x.get(e.cur, comp), base)
				r.Sort = fs
				r.GoT = ft
				return r
			}
		}
	}
	if base.Sort.Kind == KStruct {
		if base.Sort.fieldIndex(name) < 0 {
			e.fail("no field %s in %s", name, base.Sort.Name)
		}
		return x.U.StructGet(base, name)
	}
	if base.Sort == SIface && base.GoT != nil {
		e.fail("field %s of interface value (use as(e, \"T\") first)", name)
	}
	e.fail("field %s of %s (Go type %v)", name, base.Sort.Name, base.GoT)
	return Term{}
}

func (e *specEnv) index(base, idx Term) Term {
	x := e.x
	if base.Sort.Kind == KArray {
		if idx.Sort != base.Sort.Key && base.Sort.Key == SIface && idx.GoT != nil {
			idx = x.U.Box(idx, idx.GoT)
		}
		return Select(base, idx)
	}
	if base.Sort.Kind == KSlice {
		r := x.U.SliceIndex(base, idx)
		if base.GoT != nil {
			switch ut := base.GoT.Underlying().(type) {
			case *types.Slice:
				r.GoT = ut.Elem()
			case *types.Array:
				r.GoT = ut.Elem()
			}
		}
		return r
	}
	if base.GoT != nil {
		if mt, ok := base.GoT.Underlying().(*types.Map); ok {
			dom, val, _, ks, vs := x.mapComps(mt)
			if idx.Sort != ks && ks == SIface && idx.GoT != nil {
				idx = x.U.Box(idx, idx.GoT)
			}
			// Go semantics: a missing key (or a nil map) yields the zero value
			has := And(Not(Eq(base, T("0", SInt))), Select(Select(x.get(e.cur, dom), base), idx))
			r := Ite(has, Select(Select(x.get(e.cur, val), base), idx), x.U.Zero(vs))
			r.Sort = vs
			r.GoT = mt.Elem()
			return r
		}
	}
	e.fail("index of %s", base.Sort.Name)
	return Term{}
}

func (e *specEnv) quant(s *SQuant) Term {
	x := e.x
	ne := e.child()
	ne.qdepth = e.qdepth + 1
	var binds []string
	for _, b := range s.Vars {
		so, gt := e.resolveSort(b.Type)
		nm := fmt.Sprintf("bv!%s!%d", b.Name, e.qdepth)
		ne.names[b.Name] = TG(nm, so, gt)
		binds = append(binds, "("+nm+" "+so.Name+")")
	}
	if s.MapOf {
		if len(s.Vars) != 1 {
			e.fail("mapof takes one bound variable")
		}
		bodyT := ne.eval(s.Body)
		ks, _ := e.resolveSort(s.Vars[0].Type)
		as := x.U.arraySort(ks, bodyT.Sort)
		m := x.freshVal("mapof", as, nil)
		bv := ne.names[s.Vars[0].Name]
		// definitional extension: m is a fresh symbol, the axiom below has a model for every value of the body
		x.assumes = append(x.assumes, "(forall ("+binds[0]+") (! (= (select "+m.S+" "+bv.S+") "+bodyT.S+") :pattern ((select "+m.S+" "+bv.S+"))))")
		return m
	}
	body := ne.boolOf(s.Body)
	kw := "exists"
	if s.Forall {
		kw = "forall"
	}
	if len(s.Pats) > 0 {
		var ps []string
		for _, p := range s.Pats {
			var ts []string
			for _, pe := range p {
				ts = append(ts, ne.eval(pe).S)
			}
			ps = append(ps, ":pattern ("+strings.Join(ts, " ")+")")
		}
		return T("("+kw+" ("+strings.Join(binds, " ")+") (! "+body.S+" "+strings.Join(ps, " ")+"))", SBool)
	}
	return T("("+kw+" ("+strings.Join(binds, " ")+") "+body.S+")", SBool)
}

func (e *specEnv) strArg(s SExpr) string {
	switch v := s.(type) {
	case *SStrLit:
		return v.V
	case *SIdent:
		return v.Name
	}
	e.fail("expected a name or string literal")
	return ""
}

func (e *specEnv) callSpec(s *SCall) Term {
	x := e.x
	switch s.Fn {
	case "old":
		if e.old == nil {
			e.fail("old() not available here")
		}
		ne := *e
		// heap of the old state, local variables of the current one
		ne.cur = &State{pc: e.cur.pc, vars: e.cur.vars, heap: e.old.heap, epoch: e.old.epoch}
		ne.paramOld = true
		return ne.eval(s.Args[0])
	case "ghostof":
		// ghostof("Recv.Callee", "ghost"): final value of an exported ghost of the most recent call to that callee
		key := e.strArg(s.Args[0]) + ":" + e.strArg(s.Args[1])
		for k, v := range x.lastGhost {
			if k == key || strings.HasSuffix(k, "."+key) {
				return v
			}
		}
		e.fail("ghostof: no call to %s with exported ghost %s seen yet", e.strArg(s.Args[0]), e.strArg(s.Args[1]))
	case "len":
		v := e.eval(s.Args[0])
		if v.Sort.Kind == KSlice {
			return x.U.SliceLen(v)
		}
		if v.GoT != nil {
			if mt, ok := v.GoT.Underlying().(*types.Map); ok {
				_, _, card, _, _ := x.mapComps(mt)
				return Ite(Eq(v, T("0", SInt)), T("0", SInt), Select(x.get(e.cur, card), v))
			}
		}
		e.fail("len of %s", v.Sort.Name)
	case "ite":
		c := e.boolOf(s.Args[0])
		a, b := e.eval(s.Args[1]), e.eval(s.Args[2])
		a, b = e.coerce(a, b)
		return Ite(c, a, b)
	case "isnil":
		v := e.eval(s.Args[0])
		return x.isNil(v, v.GoT)
	case "samecontents":
		// samecontents(m): the map object m denotes now has, array for array (domain, values, cardinality), the contents it had
		// in the entry state - a ground statement, so that clauses about the entry state apply to the current one by congruence
		if e.old == nil {
			e.fail("samecontents() needs an entry state")
		}
		v := e.eval(s.Args[0])
		mt, ok := v.GoT.Underlying().(*types.Map)
		if !ok {
			e.fail("samecontents of a non-map")
		}
		d, vv, c, _, _ := x.mapComps(mt)
		oldSt := &State{pc: e.cur.pc, vars: e.cur.vars, heap: e.old.heap, epoch: e.old.epoch}
		out := T("true", SBool)
		for _, comp := range []string{d, vv, c} {
			out = And(out, Eq(Select(x.get(e.cur, comp), v), Select(x.get(oldSt, comp), v)))
		}
		return out
	case "typeis":
		v := e.eval(s.Args[0])
		t := x.resolveTypeIn(e.typePkg, e.strArg(s.Args[1]))
		if v.Sort != SIface {
			e.fail("typeis on non-interface")
		}
		return x.U.HasType(v, t)
	case "as":
		v := e.eval(s.Args[0])
		t := x.resolveTypeIn(e.typePkg, e.strArg(s.Args[1]))
		r := x.U.Unbox(v, t)
		r.GoT = t
		return r
	case "box":
		v := e.eval(s.Args[0])
		if len(s.Args) > 1 {
			return x.U.Box(v, x.resolveTypeIn(e.typePkg, e.strArg(s.Args[1])))
		}
		if v.GoT == nil {
			e.fail("box of value without Go type")
		}
		return x.U.Box(v, v.GoT)
	case "fresh":
		v := e.eval(s.Args[0])
		x.regComp("alloc", SInt)
		var oa Term
		if e.old != nil {
			oa = x.get(e.old, "alloc")
		} else {
			oa = x.initial("alloc", 0)
		}
		return T("(> "+v.S+" "+oa.S+")", SBool)
	case "allocated":
		v := e.eval(s.Args[0])
		return T("(and (> "+v.S+" 0) (<= "+v.S+" "+x.get(e.cur, "alloc").S+"))", SBool)
	case "held":
		// held(obj, "field") lock state
		o := e.eval(s.Args[0])
		p, ok := o.GoT.Underlying().(*types.Pointer)
		if !ok {
			e.fail("held: not a pointer")
		}
		lc := x.lockComp(p.Elem(), e.strArg(s.Args[1]))
		return Select(x.get(e.cur, lc), o)
	case "ncalls":
		key := e.strArg(s.Args[0])
		x.regComp("TL:"+key, SInt)
		x.tracedKeys[key] = true
		return x.get(e.cur, "TL:"+key)
	case "callarg", "callret":
		key := e.strArg(s.Args[0])
		i := e.eval(s.Args[1])
		j := e.strArg2int(s.Args[2])
		pfx := "TA:"
		if s.Fn == "callret" {
			pfx = "TR:"
		}
		comp := fmt.Sprintf("%s%s:%d", pfx, key, j)
		so, ok := x.compSorts[comp]
		if !ok {
			// the call never happens in this unit: unconstrained placeholder of a declared sort if given
			if len(s.Args) > 3 {
				es, gt := e.resolveSort(e.strArg(s.Args[3]))
				x.regComp(comp, x.U.arraySort(SInt, es))
				r := Select(x.get(e.cur, comp), i)
				r.GoT = gt
				return r
			}
			// a function of the repository that this unit does not call (any more): take the sort from its signature, so
			// that the clause is evaluated (and fails as an obligation) instead of failing to generate
			if gt := x.traceKeyType(key, j, s.Fn == "callret"); gt != nil {
				x.regComp(comp, x.U.arraySort(SInt, x.U.SortOf(gt)))
				r := Select(x.get(e.cur, comp), i)
				r.GoT = gt
				return r
			}
			e.fail("no recorded calls for %s (position %d); give the sort as 4th argument", key, j)
		}
		r := Select(x.get(e.cur, comp), i)
		r.Sort = so.Elem
		if len(s.Args) > 3 {
			_, gt := e.resolveSort(e.strArg(s.Args[3]))
			r.GoT = gt
		}
		return r
	case "callpanicked":
		key := e.strArg(s.Args[0])
		i := e.eval(s.Args[1])
		x.regComp("TP:"+key, x.U.arraySort(SInt, SBool))
		return Select(x.get(e.cur, "TP:"+key), i)
	case "calltime":
		key := e.strArg(s.Args[0])
		i := e.eval(s.Args[1])
		x.regComp("TT:"+key, x.U.arraySort(SInt, SInt))
		return Select(x.get(e.cur, "TT:"+key), i)
	case "wraps":
		a, b := e.eval(s.Args[0]), e.eval(s.Args[1])
		a, b = e.coerce(a, b)
		f := x.U.Fun("wraps", []*Sort{SIface, SIface}, SBool)
		return T("("+f+" "+a.S+" "+b.S+")", SBool)
	case "ctxvalue":
		f := x.U.Fun("ctx.value", []*Sort{SIface, SIface}, SIface)
		a, b := e.eval(s.Args[0]), e.eval(s.Args[1])
		if b.Sort != SIface {
			b = x.U.Box(b, b.GoT)
		}
		return T("("+f+" "+a.S+" "+b.S+")", SIface)
	case "local":
		// local("name"): a program variable whose name collides with a spec keyword
		if t, ok := e.lookup(e.strArg(s.Args[0])); ok {
			return t
		}
		e.fail("unknown local %s", e.strArg(s.Args[0]))
	case "ctxbackground":
		c := x.U.Const("ctx.Background", SIface)
		x.assumeOnce("(not ((_ is nilI) ctx.Background))")
		return c
	case "ctxparent":
		f := x.U.Fun("ctx.parent", []*Sort{SIface}, SIface)
		return T("("+f+" "+e.eval(s.Args[0]).S+")", SIface)
	case "ctxcancel":
		f := x.U.Fun("ctx.cancelFn", []*Sort{SIface}, SInt)
		return T("("+f+" "+e.eval(s.Args[0]).S+")", SInt)
	case "mk":
		// mk("T", f1, f2, ...) : struct value constructor
		so, gt := e.resolveSort(e.strArg(s.Args[0]))
		if so.Kind != KStruct || len(so.Fields) != len(s.Args)-1 {
			e.fail("mk: %s is not a struct with %d fields", so.Name, len(s.Args)-1)
		}
		vals := make([]Term, len(so.Fields))
		for i, f := range so.Fields {
			v := e.eval(s.Args[i+1])
			if v.Sort != f.Sort && f.Sort == SIface && v.GoT != nil {
				v = x.U.Box(v, v.GoT)
			}
			if v.S == "nilI" && f.Sort != SIface {
				v = x.U.Zero(f.Sort)
			}
			vals[i] = v
		}
		r := x.U.StructMk(so, vals)
		r.GoT = gt
		return r
	case "zero":
		so, gt := e.resolveSort(e.strArg(s.Args[0]))
		z := x.U.Zero(so)
		z.GoT = gt
		return z
	case "emptyset":
		so, _ := e.resolveSort("set[" + e.strArg(s.Args[0]) + "]")
		return T("((as const "+so.Name+") false)", so)
	case "constmap":
		so, _ := e.resolveSort(e.strArg(s.Args[0]))
		v := e.eval(s.Args[1])
		return T("((as const "+so.Name+") "+v.S+")", so)
	case "store":
		a, i, v := e.eval(s.Args[0]), e.eval(s.Args[1]), e.eval(s.Args[2])
		if a.Sort.Kind != KArray {
			e.fail("store on non-array")
		}
		if i.Sort != a.Sort.Key && a.Sort.Key == SIface && i.GoT != nil {
			i = x.U.Box(i, i.GoT)
		}
		return Store(a, i, v)
	case "pure":
		// pure("Type.Method" | "Func", args...) : the uninterpreted function behind a pure contract
		key := e.strArg(s.Args[0])
		var args []Term
		var as []*Sort
		for _, a := range s.Args[1:] {
			t := e.eval(a)
			args = append(args, t)
			as = append(as, t.Sort)
		}
		rt := x.pureResultType(key, e.typePkg)
		if rt == nil {
			e.fail("pure: cannot find %s", key)
		}
		rs := x.U.SortOf(rt)
		// interface receivers are boxed
		if i := strings.LastIndex(key, "."); i > 0 && len(args) > 0 && args[0].Sort != SIface {
			if t := x.resolveTypeIn(e.typePkg, key[:i]); types.IsInterface(t) && args[0].GoT != nil {
				args[0] = x.U.Box(args[0], args[0].GoT)
				as[0] = SIface
			}
		}
		f := x.U.Fun(q("pure:"+x.canonPure(key, e.typePkg)), as, rs)
		r := App(f, rs, args...)
		r.GoT = rt
		return r
	case "ext":
		// ext("full.Name", "ResultGoType", args...) : the uninterpreted function behind a pure external
		key := e.strArg(s.Args[0])
		rs, gt := e.resolveSort(e.strArg(s.Args[1]))
		var args []Term
		var as []*Sort
		for _, a := range s.Args[2:] {
			t := e.eval(a)
			args = append(args, t)
			as = append(as, t.Sort)
		}
		f := x.U.Fun(q("ext:"+key), as, rs)
		r := App(f, rs, args...)
		r.GoT = gt
		return r
	case "uf":
		// uf("name", "ResultSort", args...) : free uninterpreted spec function
		key := e.strArg(s.Args[0])
		rs, gt := e.resolveSort(e.strArg(s.Args[1]))
		var args []Term
		var as []*Sort
		for _, a := range s.Args[2:] {
			t := e.eval(a)
			args = append(args, t)
			as = append(as, t.Sort)
		}
		f := x.U.Fun(q("uf:"+key), as, rs)
		r := App(f, rs, args...)
		r.GoT = gt
		return r
	}
	// user predicate (macro)
	if pd := x.P.Pred(x.FU.Pkg.PkgPath, s.Fn); pd != nil {
		if len(pd.Params) != len(s.Args) {
			e.fail("predicate %s expects %d arguments", s.Fn, len(pd.Params))
		}
		if e.depth > 20 {
			e.fail("predicate recursion too deep")
		}
		ne := e.child()
		ne.depth = e.depth + 1
		// evaluate args in caller env, bind in a clean env (no capture of caller names except state)
		vals := make([]Term, len(s.Args))
		for i, a := range s.Args {
			vals[i] = e.eval(a)
		}
		ne.names = map[string]Term{}
		for i, p := range pd.Params {
			v := vals[i]
			if v.GoT == nil {
				if _, gt := safeResolve(e, p.Type); gt != nil {
					v.GoT = gt
				}
			} else if _, gt := safeResolve(e, p.Type); gt != nil {
				// declared parameter type wins (so field access works on interface-typed args converted by caller)
				if x.U.SortOf(gt) == v.Sort {
					v.GoT = gt
				}
			}
			ne.names[p.Name] = v
		}
		ne.noLocals = true
		ne.typePkg = pd.Pkg
		return ne.eval(pd.Body)
	}
	e.fail("unknown spec function %s", s.Fn)
	return Term{}
}

func safeResolve(e *specEnv, ts string) (so *Sort, gt types.Type) {
	defer func() {
		if r := recover(); r != nil {
			so, gt = nil, nil
		}
	}()
	return e.resolveSort(ts)
}

func joinTerms(ts []Term) string {
	ss := make([]string, len(ts))
	for i, t := range ts {
		ss[i] = t.S
	}
	return strings.Join(ss, " ")
}

func (e *specEnv) strArg2int(s SExpr) int {
	if l, ok := s.(*SIntLit); ok {
		n, _ := strconv.Atoi(l.V)
		return n
	}
	e.fail("expected integer literal")
	return 0
}

var _ = ast.Inspect

func (x *Unit) pureResultType(key string, pkg string) types.Type {
	if i := strings.LastIndex(key, "."); i > 0 {
		t := x.resolveTypeIn(pkg, key[:i])
		obj, _, _ := types.LookupFieldOrMethod(t, true, x.FU.Pkg.Types, key[i+1:])
		if obj == nil {
			obj, _, _ = types.LookupFieldOrMethod(types.NewPointer(t), true, x.FU.Pkg.Types, key[i+1:])
		}
		if fn, ok := obj.(*types.Func); ok {
			sig := fn.Type().(*types.Signature)
			if sig.Results().Len() == 1 {
				return sig.Results().At(0).Type()
			}
		}
		return nil
	}
	for _, pk := range append([]*types.Package{x.FU.Pkg.Types}, x.otherPkgs()...) {
		if fn, ok := pk.Scope().Lookup(key).(*types.Func); ok {
			sig := fn.Type().(*types.Signature)
			if sig.Results().Len() == 1 {
				return sig.Results().At(0).Type()
			}
		}
	}
	return nil
}

// topExists unfolds predicate calls until an existential quantifier is at the top; it returns the quantifier and the
// environment in which its body is to be evaluated.
func (e *specEnv) topExists(s SExpr, depth int) (*SQuant, *specEnv) {
	if depth > 8 {
		return nil, nil
	}
	switch v := s.(type) {
	case *SQuant:
		if !v.Forall && !v.MapOf {
			return v, e
		}
	case *SCall:
		x := e.x
		if pd := x.P.Pred(x.FU.Pkg.PkgPath, v.Fn); pd != nil && len(pd.Params) == len(v.Args) {
			ne := e.child()
			vals := make([]Term, len(v.Args))
			for i, a := range v.Args {
				vals[i] = e.eval(a)
			}
			ne.names = map[string]Term{}
			for i, p := range pd.Params {
				t := vals[i]
				if t.GoT == nil {
					if _, gt := safeResolve(e, p.Type); gt != nil {
						t.GoT = gt
					}
				}
				ne.names[p.Name] = t
			}
			ne.noLocals = true
			ne.typePkg = pd.Pkg
			return ne.topExists(pd.Body, depth+1)
		}
	}
	return nil, nil
}

// traceKeyType finds the Go type of argument j (0 = receiver for methods) or result j of the repository function that a
// trace key like "scope.runInitializers" or "graph.DependencyGraph.DetectCycles" names.
func (x *Unit) traceKeyType(key string, j int, ret bool) types.Type {
	name := key
	for _, pk := range x.P.Pkgs {
		if strings.HasPrefix(key, pk.Name+".") {
			name = strings.TrimPrefix(key, pk.Name+".")
		}
	}
	for k, u := range x.P.Units {
		if u.Obj == nil || !strings.HasSuffix(k, "::"+name) {
			continue
		}
		sig := u.Sig
		if ret {
			if j < sig.Results().Len() {
				return sig.Results().At(j).Type()
			}
			return nil
		}
		if sig.Recv() != nil {
			if j == 0 {
				return sig.Recv().Type()
			}
			j--
		}
		if j < sig.Params().Len() {
			return sig.Params().At(j).Type()
		}
		return nil
	}
	return nil
}
