package main

// Discharging obligations: race z3 4.8.12, z3-new 5.1.0 and cvc5; first definite answer wins.

import (
	"bytes"
	"context"
	"fmt"
	"os"
	"os/exec"
	"path/filepath"
	"strings"
	"sync"
	"time"
)

type solverSpec struct {
	name string
	argv func(file string, timeoutS int) []string
	head func(seed int) string
}

var solvers = []solverSpec{
	{"z3-new-5.1.0", func(f string, t int) []string { return []string{"z3-new", fmt.Sprintf("-T:%d", t), f} },
		func(seed int) string {
			return fmt.Sprintf("(set-option :smt.random_seed %d)\n", seed)
		}},
	{"z3-4.8.12", func(f string, t int) []string { return []string{"/usr/bin/z3", fmt.Sprintf("-T:%d", t), f} },
		func(seed int) string {
			return fmt.Sprintf("(set-option :smt.random_seed %d)\n", seed)
		}},
	{"cvc5-1.0", func(f string, t int) []string {
		return []string{"cvc5", "--lang=smt2", fmt.Sprintf("--tlimit=%d", t*1000), "--full-saturate-quant", f}
	},
		func(seed int) string { return fmt.Sprintf("(set-option :seed %d)\n", seed) }},
}

type solveResult struct {
	status string
	solver string
	timeS  float64
	out    string
	all    map[string]string
}

func (res *UnitResult) queryBody(o *Obligation) string {
	var b strings.Builder
	b.WriteString("(set-logic ALL)\n")
	b.WriteString(res.U.Preamble())
	for i, a := range res.Assumes[:o.NAssume] {
		if !res.keepAssume(o, i) {
			continue
		}
		b.WriteString("(assert ")
		b.WriteString(a)
		b.WriteString(")\n")
	}
	fmt.Fprintf(&b, "(assert %s)\n", o.PC.S)
	fmt.Fprintf(&b, "(assert (not %s))\n", o.Cond.S)
	return b.String()
}

func runSolver(ctx context.Context, sp solverSpec, file string, timeoutS int) (string, string) {
	argv := sp.argv(file, timeoutS)
	cmd := exec.CommandContext(ctx, argv[0], argv[1:]...)
	var out bytes.Buffer
	cmd.Stdout = &out
	cmd.Stderr = &out
	_ = cmd.Run()
	s := out.String()
	first := strings.TrimSpace(strings.SplitN(strings.TrimSpace(s), "\n", 2)[0])
	switch first {
	case "sat", "unsat", "unknown":
		return first, s
	}
	if strings.Contains(s, "timeout") || ctx.Err() != nil {
		return "timeout", s
	}
	return "error", s
}

// solve races the solvers on one obligation. crossCheck waits for all and reports disagreement.
func solve(scratch string, idx int, body string, seed, timeoutS int, crossCheck bool, wantModel bool) solveResult {
	files := make([]string, len(solvers))
	for i, sp := range solvers {
		f := filepath.Join(scratch, fmt.Sprintf("q%05d.%d.smt2", idx, i))
		txt := "(set-option :produce-models true)\n" + sp.head(seed) + body + "(check-sat)\n"
		if wantModel {
			txt += "(get-model)\n"
		}
		os.WriteFile(f, []byte(txt), 0o644)
		files[i] = f
	}
	ctx, cancel := context.WithTimeout(context.Background(), time.Duration(timeoutS+2)*time.Second)
	defer cancel()
	type ans struct {
		i      int
		status string
		out    string
		t      float64
	}
	ch := make(chan ans, len(solvers))
	start := time.Now()
	for i, sp := range solvers {
		go func(i int, sp solverSpec) {
			st, out := runSolver(ctx, sp, files[i], timeoutS)
			ch <- ans{i, st, out, time.Since(start).Seconds()}
		}(i, sp)
	}
	res := solveResult{status: "unknown", all: map[string]string{}}
	got := 0
	for got < len(solvers) {
		a := <-ch
		got++
		res.all[solvers[a.i].name] = a.status
		if a.status == "sat" || a.status == "unsat" {
			if res.status != "sat" && res.status != "unsat" {
				res.status, res.solver, res.timeS, res.out = a.status, solvers[a.i].name, a.t, a.out
				if !crossCheck {
					cancel()
					break
				}
			} else if res.status != a.status {
				res.status = "disagree"
			}
		} else if res.status == "unknown" && a.status == "timeout" {
			res.timeS = a.t
		}
	}
	if res.status == "unknown" {
		allTO := true
		for _, s := range res.all {
			if s != "timeout" {
				allTO = false
			}
		}
		if allTO {
			res.status = "timeout"
		}
		allErr := true
		for _, s := range res.all {
			if s != "error" {
				allErr = false
			}
		}
		if allErr {
			res.status = "error" // every solver rejected the query: a generator bug, never a proof
		}
		res.timeS = time.Since(start).Seconds()
		var sb strings.Builder
		for k, v := range res.all {
			fmt.Fprintf(&sb, "%s: %s\n", k, v)
		}
		res.out = sb.String()
	}
	for _, f := range files {
		os.Remove(f)
	}
	return res
}

func dischargeAll(results []*UnitResult, scratch string, seed, timeoutS, par int, crossCheck bool, inLedger func(string) bool) {
	type job struct {
		res *UnitResult
		o   *Obligation
		idx int
	}
	var jobs []job
	idx := 0
	for _, r := range results {
		for _, o := range r.Obls {
			idx++
			jobs = append(jobs, job{r, o, idx})
		}
	}
	var wg sync.WaitGroup
	sem := make(chan struct{}, par)
	for _, j := range jobs {
		wg.Add(1)
		sem <- struct{}{}
		go func(j job) {
			defer wg.Done()
			defer func() { <-sem }()
			o := j.o
			if o.Cond.S == "true" || o.PC.S == "false" {
				if o.IsCover {
					o.Status, o.Solver = "unsat", "trivial"
				} else {
					o.Status, o.Solver = "unsat", "trivial"
				}
				return
			}
			body := j.res.queryBody(o)
			to := timeoutS
			if o.IsCover {
				to = 2
			}
			known := inLedger == nil || inLedger(o.Name)
			if !known && !o.IsCover {
				to = 6 // not (yet) in the ledger of discharged obligations: it cannot raise a violation by failing to discharge
			}
			sr := solve(scratch, j.idx, body, seed, to, crossCheck && !o.IsCover, false)
			if sr.status != "unsat" && sr.status != "sat" && !o.IsCover && known {
				// retry once with another seed and doubled timeout (slow queries are the unstable ones)
				sr2 := solve(scratch, j.idx, body, seed+7919, to*2, false, false)
				if sr2.status == "unsat" || sr2.status == "sat" {
					sr = sr2
				} else {
					// third and last attempt: an alarm on unchanged code is worse than a slow run
					sr3 := solve(scratch, j.idx, body, seed+104729, to*3, false, false)
					if sr3.status == "unsat" || sr3.status == "sat" {
						sr = sr3
					}
				}
			}
			o.Status, o.Solver, o.TimeS = sr.status, sr.solver, sr.timeS
			if sr.status == "sat" && !o.IsCover {
				// fetch a model from the answering solver
				m := solve(scratch, j.idx, body, seed, to, false, true)
				o.Model = m.out
			} else if sr.status != "unsat" {
				o.Model = sr.out
			}
			if sr.status != "unsat" && !o.IsCover {
				o.Query = body
			}
		}(j)
	}
	wg.Wait()
}
