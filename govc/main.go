package main

import (
	"fmt"
	"golang.org/x/tools/go/packages"
)

func main() {
	cfg := &packages.Config{Mode: packages.LoadAllSyntax, Dir: "/repo", BuildFlags: []string{"-tags=verif"}}
	pkgs, err := packages.Load(cfg, "./...")
	fmt.Println(len(pkgs), err)
}
