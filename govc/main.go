package main

import (
	"encoding/json"
	"flag"
	"fmt"
	"os"
	"path/filepath"
	"sort"
	"strconv"
	"strings"
	"time"
)

var verifRoot = "/verif"

func hasTag(tags []string, p string) bool {
	for _, t := range tags {
		if t == p {
			return true
		}
	}
	return false
}

func contractTags(c *FuncContract) map[string]bool {
	out := map[string]bool{}
	add := func(cl []*Clause) {
		for _, c := range cl {
			for _, t := range c.Tags {
				out[t] = true
			}
		}
	}
	add(c.Requires)
	add(c.Monitor)
	add(c.Ensures)
	add(c.Panics)
	for _, l := range c.Loops {
		add(l.Invariants)
	}
	for _, a := range c.Actions {
		if a.Clause != nil {
			for _, t := range a.Clause.Tags {
				out[t] = true
			}
		}
	}
	for _, t := range c.SafetyTags {
		out[t] = true
	}
	return out
}

func main() {
	if len(os.Args) < 2 {
		fmt.Fprintln(os.Stderr, "usage: govc check|units ...")
		os.Exit(2)
	}
	if v := os.Getenv("VERIF_ROOT"); v != "" {
		verifRoot = v
	}
	switch os.Args[1] {
	case "units":
		cmdUnits()
	case "check":
		os.Exit(cmdCheck(os.Args[2:]))
	case "parse":
		e, err := ParseSpec(strings.Join(os.Args[2:], " "))
		fmt.Printf("%#v %v\n", e, err)
	default:
		fmt.Fprintln(os.Stderr, "unknown command")
		os.Exit(2)
	}
}

var repoDirs = []string{".", "http", "chi", "gin", "echo", "fiber"}

func cmdUnits() {
	p, err := LoadProgram("/repo", repoDirs)
	if err != nil {
		fmt.Println("load error:", err)
		os.Exit(1)
	}
	var keys []string
	for k, u := range p.Units {
		if u.Contract != nil {
			keys = append(keys, k)
		}
	}
	sort.Strings(keys)
	for _, k := range keys {
		u := p.Units[k]
		tags := contractTags(u.Contract)
		var ts []string
		for t := range tags {
			ts = append(ts, t)
		}
		sort.Strings(ts)
		fmt.Printf("%s  [%s]\n", k, strings.Join(ts, ","))
	}
}

type checkOpts struct {
	prop, unit, tier, repo string
	seed                   int
	timeout, par           int
	updateLedger           bool
	dump                   string
	verbose                bool
	all                    bool
	allMods                bool
}

func cmdCheck(args []string) int {
	fs := flag.NewFlagSet("check", flag.ExitOnError)
	var o checkOpts
	fs.StringVar(&o.prop, "prop", "", "property id (C01..C20)")
	fs.StringVar(&o.unit, "unit", "", "only this unit (substring match)")
	fs.StringVar(&o.tier, "tier", "quick", "quick|thorough")
	fs.StringVar(&o.repo, "repo", "/repo", "repository root")
	fs.IntVar(&o.timeout, "timeout", 0, "per-obligation solver timeout (s)")
	fs.IntVar(&o.par, "par", 5, "obligations in parallel")
	fs.BoolVar(&o.updateLedger, "update-ledger", false, "rewrite the ledger entries for this property from this run")
	fs.StringVar(&o.dump, "dump", "", "directory to dump all queries")
	fs.BoolVar(&o.verbose, "v", false, "verbose")
	fs.BoolVar(&o.all, "all", false, "all units with a contract")
	fs.BoolVar(&o.allMods, "allmods", false, "load the integration sub-modules too")
	fs.Parse(args)
	if s := os.Getenv("VERIF_SEED"); s != "" {
		o.seed, _ = strconv.Atoi(s)
	}
	if t := os.Getenv("VERIF_TIER"); t != "" && (t == "quick" || t == "thorough") {
		o.tier = t
	}
	if o.timeout == 0 {
		if o.tier == "thorough" {
			o.timeout = 60
		} else {
			o.timeout = 20
		}
	}
	return runCheck(&o)
}

type Ledger map[string][]string

func loadLedger() Ledger {
	l := Ledger{}
	data, err := os.ReadFile(filepath.Join(verifRoot, "obligations.lock.json"))
	if err == nil {
		json.Unmarshal(data, &l)
	}
	return l
}

type KnownFinding struct {
	Property   string `json:"property"`
	Obligation string `json:"obligation"`
	What       string `json:"what"`
	Status     string `json:"status"` // open | fixed
	Commit     string `json:"commit,omitempty"`
	Input      string `json:"failing_input,omitempty"`
}

func loadKnown() []KnownFinding {
	var k struct {
		Findings []KnownFinding `json:"findings"`
	}
	data, err := os.ReadFile(filepath.Join(verifRoot, "known_findings.json"))
	if err == nil {
		json.Unmarshal(data, &k)
	}
	return k.Findings
}

func oblTagged(o *Obligation, prop string) bool { return prop == "" || hasTag(o.Tags, prop) }

func runCheck(o *checkOpts) int {
	start := time.Now()
	dirs := []string{"."}
	if o.prop == "C16" || o.prop == "" || o.allMods {
		dirs = repoDirs
	}
	prog, err := LoadProgram(o.repo, dirs)
	type genFail = struct{ unit, msg string }
	var genFails []genFail
	var results []*UnitResult
	var unitNames []string
	loadErr := ""
	if err != nil {
		loadErr = err.Error()
	} else {
		var keys []string
		for k, u := range prog.Units {
			if u.Contract == nil || u.Contract.NoCheck {
				continue
			}
			if o.unit != "" && !strings.Contains(k, o.unit) {
				continue
			}
			if o.prop != "" && !o.all {
				if !contractTags(u.Contract)[o.prop] {
					continue
				}
			}
			keys = append(keys, k)
		}
		sort.Strings(keys)
		for _, k := range keys {
			u := prog.Units[k]
			x := NewUnit(prog, u)
			r := x.Verify()
			results = append(results, r)
			unitNames = append(unitNames, r.Pkg+"."+r.Unit)
			if r.Err != "" {
				genFails = append(genFails, genFail{r.Pkg + "." + r.Unit, r.Err})
			}
		}
		// pure lemmas
		var lpaths []string
		for path := range prog.Contracts {
			lpaths = append(lpaths, path)
		}
		sort.Strings(lpaths)
		for _, path := range lpaths {
			for _, lm := range prog.Contracts[path].Lemmas {
				tagged := o.prop == "" || hasTag(lm.Tags, o.prop)
				for _, en := range lm.Ensures {
					if hasTag(en.Tags, o.prop) {
						tagged = true
					}
				}
				if !tagged && !o.all {
					continue
				}
				if o.unit != "" && !strings.Contains("lemma."+lm.Name, o.unit) {
					continue
				}
				r := VerifyLemma(prog, path, lm)
				results = append(results, r)
				if r.Err != "" {
					genFails = append(genFails, genFail{r.Pkg + "." + r.Unit, r.Err})
				}
			}
		}
		// contracts that name functions which no longer exist
		for path, cs := range prog.Contracts {
			for name, c := range cs.Funcs {
				if _, ok := prog.Units[unitKey(path, name)]; !ok && !c.NoCheck && !isAbstractName(name) {
					if o.prop == "" || contractTags(c)[o.prop] {
						genFails = append(genFails, genFail{name, "function under contract not found in " + path})
					}
				}
			}
		}
	}
	scratch, _ := os.MkdirTemp(scratchBase(), "govc.")
	defer os.RemoveAll(scratch)
	// keep only obligations relevant to the property (plus covers of the selected units)
	for _, r := range results {
		var keep []*Obligation
		for _, ob := range r.Obls {
			if ob.IsCover || oblTagged(ob, o.prop) {
				keep = append(keep, ob)
			}
		}
		r.Obls = keep
	}
	var inLedger func(string) bool
	if !o.updateLedger && o.prop != "" {
		led := map[string]bool{}
		for _, n := range loadLedger()[o.prop] {
			led[n] = true
		}
		if len(led) > 0 {
			inLedger = func(n string) bool { return led[n] }
		}
	}
	dischargeAll(results, scratch, o.seed, o.timeout, o.par, o.tier == "thorough", inLedger)
	// aggregate guard obligations: per concurrent unit and declared field, "every access respects the discipline".
	// A new access site that violates the discipline fails the aggregate, which is in the ledger even when the unit
	// had no access site on the unchanged tree.
	if prog != nil && (o.prop == "" || o.prop == "C09") {
		var decls []string
		for _, cs := range prog.Contracts {
			for _, fd := range cs.Fields {
				decls = append(decls, fd.Type+"."+fd.Field)
			}
		}
		sort.Strings(decls)
		for _, r := range results {
			if r.Mode != "conc" || r.Err != "" {
				continue
			}
			for _, d := range decls {
				n, bad := 0, 0
				for _, ob := range r.Obls {
					if ob.Kind == "guard" && strings.HasPrefix(ob.Label, d+".") {
						n++
						if ob.Status != "unsat" {
							bad++
						}
					}
				}
				st := "unsat"
				if bad > 0 {
					st = "sat"
				}
				r.Obls = append(r.Obls, &Obligation{Name: r.Pkg + "." + r.Unit + "#guardall[" + d + "]", Kind: "guardall", Label: d, Tags: []string{"C09"}, PC: True, Cond: True,
					Src: fmt.Sprintf("every access to %s in this function respects its declared locking discipline (%d sites, %d failing)", d, n, bad), Unit: r.Unit, Status: st, Solver: "aggregate"})
			}
		}
	}
	if o.dump != "" {
		os.MkdirAll(o.dump, 0o755)
		for _, r := range results {
			for _, ob := range r.Obls {
				os.WriteFile(filepath.Join(o.dump, sanitizeFile(ob.Name)+".smt2"), []byte(r.queryBody(ob)+"(check-sat)\n"), 0o644)
			}
		}
	}
	return report(o, prog, results, genFailsToMap(genFails), loadErr, start)
}

type gf = struct{ unit, msg string }

func genFailsToMap(g []struct{ unit, msg string }) map[string]string {
	m := map[string]string{}
	for _, x := range g {
		m[x.unit] = x.msg
	}
	return m
}

func isAbstractName(n string) bool {
	return strings.HasPrefix(n, "fn:") || strings.HasPrefix(n, "field:") || strings.HasPrefix(n, "fnvar:") || strings.Contains(n, ".") && false
}

func scratchBase() string {
	if d := os.Getenv("VERIF_SCRATCH"); d != "" {
		os.MkdirAll(d, 0o755)
		return d
	}
	d := filepath.Join(verifRoot, "scratch")
	os.MkdirAll(d, 0o755)
	return d
}

func sanitizeFile(s string) string {
	r := strings.NewReplacer("/", "_", "#", "-", "[", "-", "]", "", "*", "", " ", "_", "$", "_", "~", "-", ":", "_", "(", "", ")", "")
	return r.Replace(s)
}
