package main

import (
	"encoding/json"
	"fmt"
	"os"
	"path/filepath"
	"sort"
	"strings"
	"time"
)

var boundedOut []boundedResult

type violation struct {
	Obligation string
	Reason     string
	Status     string
	Replay     string
	Confirmed  bool
	Detail     string
}

func report(o *checkOpts, prog *Program, results []*UnitResult, genFails map[string]string, loadErr string, start time.Time) int {
	prop := o.prop
	ledger := loadLedger()
	known := loadKnown()
	knownOpen := map[string]KnownFinding{}
	for _, k := range known {
		if k.Status == "open" && (prop == "" || k.Property == prop) {
			knownOpen[k.Obligation] = k
		}
	}
	var all []*Obligation
	byName := map[string]*Obligation{}
	resOf := map[*Obligation]*UnitResult{}
	for _, r := range results {
		for _, ob := range r.Obls {
			all = append(all, ob)
			byName[ob.Name] = ob
			resOf[ob] = r
		}
	}
	inLedger := map[string]bool{}
	for _, n := range ledger[prop] {
		inLedger[n] = true
	}
	var viols []violation
	var knownLines []string
	var undecided []map[string]any
	discharged, total := 0, 0
	byBackend := map[string]int{}
	solverTime := 0.0
	type slow struct {
		Name string  `json:"name"`
		T    float64 `json:"time_s"`
	}
	var slowest []slow
	var samples []map[string]any
	covers, coversOK := 0, 0
	aggregates := 0
	knownHit := map[string]bool{}
	for _, ob := range all {
		solverTime += ob.TimeS
		if ob.IsCover {
			covers++
			if ob.Status == "unsat" {
				viols = append(viols, violation{Obligation: ob.Name, Reason: "vacuous: no exit of the function is reachable under its preconditions and assumed contracts", Status: ob.Status})
			} else {
				coversOK++
			}
			continue
		}
		if kf, ok := knownOpen[ob.Name]; ok {
			knownHit[ob.Name] = true
			if ob.Status == "unsat" {
				// a known finding whose obligation now discharges: canary (the defect disappeared); report but do not fail
				knownLines = append(knownLines, fmt.Sprintf("NOTE: known finding %s now discharges (fixed?)", ob.Name))
				total++
				discharged++
			} else {
				knownLines = append(knownLines, fmt.Sprintf("KNOWN-FINDING: property=%s %s: %s", kf.Property, ob.Name, kf.What))
			}
			continue
		}
		if ob.Kind == "guardall" {
			// aggregate over the per-site guard obligations (no solver query of its own): not counted as an obligation
			aggregates++
			if ob.Status != "unsat" {
				if inLedger[ob.Name] || o.updateLedger {
					viols = append(viols, violation{Obligation: ob.Name, Reason: "locking discipline no longer respected: " + ob.Src, Status: ob.Status})
				}
			}
			continue
		}
		total++
		slowest = append(slowest, slow{ob.Name, ob.TimeS})
		if ob.Status == "unsat" {
			discharged++
			byBackend[ob.Solver]++
			if len(samples) < 6 && ob.Solver != "trivial" {
				samples = append(samples, map[string]any{"obligation": ob.Name, "kind": ob.Kind, "clause": ob.Src, "at": ob.Pos, "solver": ob.Solver, "time_s": round3(ob.TimeS)})
			}
			continue
		}
		if inLedger[ob.Name] || o.updateLedger {
			viols = append(viols, violation{Obligation: ob.Name, Reason: "obligation no longer discharged: " + ob.Src, Status: ob.Status, Detail: ob.Model})
		} else {
			// not in the ledger: a failed proof alone is not a violation - unless its replay family reproduces exactly this clause on the real code
			if r := resOf[ob]; r != nil && !o.updateLedger {
				if cr := tryReplay(o, prog, r, ob); cr != nil && cr.Confirmed && cr.Specific {
					viols = append(viols, violation{Obligation: ob.Name, Reason: "new obligation fails and its replay reproduces the violated clause on the real code: " + ob.Src, Status: ob.Status, Detail: ob.Model})
					continue
				}
			}
			total--
			undecided = append(undecided, map[string]any{"obligation": ob.Name, "status": ob.Status, "clause": ob.Src, "at": ob.Pos, "note": "not in the ledger of obligations discharged on the unchanged tree; a failed proof alone is not a violation"})
		}
	}
	// generation failures and vanished obligations
	for unit, msg := range genFails {
		hit := false
		for n := range inLedger {
			if strings.HasPrefix(n, unit+"#") {
				hit = true
			}
		}
		if hit || len(ledger[prop]) == 0 {
			viols = append(viols, violation{Obligation: unit + "#generation", Reason: "obligations could not be generated: " + msg, Status: "error"})
		}
	}
	if loadErr != "" {
		viols = append(viols, violation{Obligation: "load", Reason: "repository does not load/type-check: " + loadErr, Status: "error"})
	}
	for n := range inLedger {
		if o.updateLedger {
			break
		}
		if _, ok := byName[n]; !ok {
			if o.unit != "" {
				continue // a filtered development run generates only part of the ledger
			}
			unit := n[:strings.Index(n, "#")]
			if _, failed := genFails[unit]; failed {
				continue
			}
			viols = append(viols, violation{Obligation: n, Reason: "obligation that discharged on the unchanged tree is no longer generated (contract or anchored code vanished)", Status: "missing"})
		}
	}
	// known findings that did not even get generated stay silent.
	sort.Slice(slowest, func(i, j int) bool { return slowest[i].T > slowest[j].T })
	if len(slowest) > 5 {
		slowest = slowest[:5]
	}
	sort.Slice(viols, func(i, j int) bool { return viols[i].Obligation < viols[j].Obligation })

	// bounded stand-ins (labelled bounded; never counted as discharged obligations)
	var bounded []boundedResult
	if prop != "" && !o.updateLedger && o.unit == "" {
		var bv []violation
		bounded, bv = runBounded(o)
		for _, v := range bv {
			// a bounded stand-in whose failure is a listed open finding: the finding is identified by the entry AND by the
			// failing input it names, so a different failure of the same entry is still a violation
			if kf, ok := knownOpen[v.Obligation]; ok && (kf.Input == "" || strings.Contains(v.Detail, kf.Input)) {
				knownHit[v.Obligation] = true
				knownLines = append(knownLines, fmt.Sprintf("KNOWN-FINDING: property=%s %s: %s", kf.Property, v.Obligation, kf.What))
				continue
			}
			viols = append(viols, v)
		}
	}
	boundedOut = bounded
	// replay files
	exit := 0
	var out []string
	if len(viols) > 0 && !o.updateLedger {
		exit = 1
		rdir := filepath.Join(verifRoot, "replays", propOr(prop))
		os.MkdirAll(rdir, 0o755)
		for i := range viols {
			v := &viols[i]
			rp := filepath.Join(rdir, sanitizeFile(v.Obligation)+".json")
			rep := map[string]any{"property": prop, "obligation": v.Obligation, "reason": v.Reason, "solver_status": v.Status, "solver_output": truncate(v.Detail, 20000)}
			if strings.HasPrefix(v.Obligation, "bounded:") {
				rep["replay"] = map[string]any{"family": strings.TrimPrefix(v.Obligation, "bounded:"), "confirmed": v.Confirmed}
			}
			if ob, ok := byName[v.Obligation]; ok {
				rep["clause"] = ob.Src
				rep["at"] = ob.Pos
				rep["kind"] = ob.Kind
				if ob.Query != "" {
					qp := filepath.Join(rdir, sanitizeFile(v.Obligation)+".smt2")
					os.WriteFile(qp, []byte(ob.Query+"(check-sat)\n(get-model)\n"), 0o644)
					rep["query_file"] = qp
				}
				// concrete replay through a family, when one is registered for the unit
				if r := resOf[ob]; r != nil {
					if cr := tryReplay(o, prog, r, ob); cr != nil {
						rep["replay"] = cr
						if cr.Confirmed {
							v.Confirmed = true
						}
					}
				}
			}
			data, _ := json.MarshalIndent(rep, "", " ")
			os.WriteFile(rp, data, 0o644)
			v.Replay = rp
			line := fmt.Sprintf("VIOLATION property=%s replay=%s", propOr(prop), rp)
			if !v.Confirmed {
				line += " no-failing-input-found"
			}
			out = append(out, line)
		}
	}
	for _, l := range knownLines {
		fmt.Println(l)
	}
	for _, v := range viols {
		fmt.Printf("FAILED %s [%s]: %s\n", v.Obligation, v.Status, v.Reason)
	}
	for _, l := range out {
		fmt.Println(l)
	}
	if o.verbose {
		for _, ob := range all {
			fmt.Printf("  %-8s %-12s %6.2fs %s\n", ob.Status, ob.Solver, ob.TimeS, ob.Name)
		}
		for _, r := range results {
			for _, w := range r.Warnings {
				fmt.Printf("  warning %s: %s\n", r.Unit, w)
			}
		}
		for _, u := range undecided {
			fmt.Printf("  undecided %v [%v] at %v: %v\n", u["obligation"], u["status"], u["at"], u["clause"])
		}
	}
	if o.updateLedger && prop != "" {
		var names []string
		for _, ob := range all {
			if !ob.IsCover && ob.Status == "unsat" {
				names = append(names, ob.Name)
			}
		}
		sort.Strings(names)
		ledger[prop] = names
		data, _ := json.MarshalIndent(ledger, "", " ")
		os.WriteFile(filepath.Join(verifRoot, "obligations.lock.json"), data, 0o644)
		fmt.Printf("ledger[%s] = %d obligations (%d not discharged)\n", prop, len(names), len(viols))
	}

	// evidence
	if prop != "" {
		writeEvidence(o, prog, results, all, total, discharged, byBackend, solverTime, slowest, samples, undecided, knownLines, viols, covers, coversOK, start)
	}
	fmt.Printf("govc: property=%s tier=%s units=%d obligations=%d discharged=%d undecided=%d known=%d violations=%d aggregates=%d wall=%.1fs\n",
		propOr(prop), o.tier, len(results), total, discharged, len(undecided), len(knownLines), len(viols), aggregates, time.Since(start).Seconds())
	return exit
}

func propOr(p string) string {
	if p == "" {
		return "ALL"
	}
	return p
}

func truncate(s string, n int) string {
	if len(s) > n {
		return s[:n] + "\n...[truncated]"
	}
	return s
}

func round3(f float64) float64 { return float64(int(f*1000+0.5)) / 1000 }

func writeEvidence(o *checkOpts, prog *Program, results []*UnitResult, all []*Obligation, total, discharged int, byBackend map[string]int, solverTime float64,
	slowest any, samples []map[string]any, undecided []map[string]any, knownLines []string, viols []violation, covers, coversOK int, start time.Time) {
	var fuc []string
	absSet := map[string]bool{}
	trusted := map[string]bool{}
	var assumedAt []string
	for _, r := range results {
		fuc = append(fuc, r.Pkg+"."+r.Unit)
		for _, a := range r.Abstractions {
			absSet[r.Unit+": "+a] = true
		}
		for _, t := range r.Trusted {
			trusted[t] = true
		}
		assumedAt = append(assumedAt, r.AssumedAt...)
	}
	var abstractions, trustedL []string
	for a := range absSet {
		abstractions = append(abstractions, a)
	}
	sort.Strings(abstractions)
	for t := range trusted {
		trustedL = append(trustedL, t)
	}
	sort.Strings(trustedL)
	var exts []string
	for k := range externalSpecsUsed {
		exts = append(exts, k)
	}
	sort.Strings(exts)
	var axioms []string
	if prog != nil {
		for _, cs := range prog.Contracts {
			for _, a := range cs.Axioms {
				axioms = append(axioms, a.Label+": "+a.Src)
			}
		}
	}
	sort.Strings(axioms)
	// kinds of the obligations that are counted (discharged or violated); covers, aggregates, undecided and known findings are reported separately
	und := map[string]bool{}
	for _, u := range undecided {
		if n, ok := u["obligation"].(string); ok {
			und[n] = true
		}
	}
	kinds := map[string]int{}
	for _, ob := range all {
		if ob.IsCover || ob.Kind == "guardall" || und[ob.Name] {
			continue
		}
		kinds[ob.Kind]++
	}
	if len(samples) == 0 {
		for _, ob := range all {
			if len(samples) < 3 {
				samples = append(samples, map[string]any{"obligation": ob.Name, "kind": ob.Kind, "clause": ob.Src, "status": ob.Status})
			}
		}
	}
	tb := []string{
		"govc (this VC generator): Go semantics of the supported subset as encoded (DESIGN.md 2.3-2.7)",
		"SMT solvers z3 4.8.12 / z3 5.1.0 / cvc5 1.0 (one unsat answer discharges; thorough tier cross-checks)",
		"machine integers treated as mathematical Int; slices have value semantics (no write-through aliasing)",
		"interface equality / map keys never panic (hashable keys)",
	}
	for _, t := range trustedL {
		tb = append(tb, "assumed (unchecked) contract: "+t)
	}
	for _, e := range exts {
		tb = append(tb, "external model: "+e)
	}
	for _, a := range axioms {
		tb = append(tb, "axiom: "+a)
	}
	for _, a := range assumedAt {
		tb = append(tb, "inline assume: "+a)
	}
	cov := map[string]any{
		"obligations":              total,
		"discharged":               discharged,
		"checker_cmd":              fmt.Sprintf("bin/govc check -prop %s -tier %s", o.prop, o.tier),
		"trusted_base":             tb,
		"functions_under_contract": fuc,
		"obligation_kinds":         kinds,
		"by_backend":               byBackend,
		"solver_time_s":            round3(solverTime),
		"slowest":                  slowest,
		"abstractions":             abstractions,
		"undecided":                undecided,
		"known_findings":           knownLines,
		"vacuity_checks":           map[string]any{"cover_obligations": covers, "reachable_or_unknown": coversOK, "rule": "assert false at the exits of every unit must NOT be provable"},
		"samples":                  samples,
		"bounded":                  boundedOut,
		"evaluations":              total,
		"distinct_nontrivial":      total,
		"rule":                     "one SMT query per named obligation generated from /repo's current source; non-trivial = not syntactically true",
	}
	var vl []string
	for _, v := range viols {
		vl = append(vl, v.Obligation+": "+v.Reason)
	}
	if len(vl) > 0 {
		cov["violations_detail"] = vl
	}
	ev := map[string]any{
		"property_id": o.prop,
		"tier":        o.tier,
		"seed":        o.seed,
		"level":       "proof",
		"coverage":    cov,
		"assumptions": tb,
		"wall_s":      round3(time.Since(start).Seconds()),
		"violations":  len(viols),
	}
	os.MkdirAll(filepath.Join(verifRoot, "evidence"), 0o755)
	data, _ := json.MarshalIndent(ev, "", " ")
	os.WriteFile(filepath.Join(verifRoot, "evidence", o.prop+".json"), data, 0o644)
}

type replayResult struct {
	Family    string `json:"family"`
	Confirmed bool   `json:"confirmed"`
	Specific  bool   `json:"names_this_clause"` // a REPLAY-CONFIRMED line names this obligation's label
	Scenario  any    `json:"scenario,omitempty"`
	Output    string `json:"output,omitempty"`
	Note      string `json:"note,omitempty"`
}

func tryReplay(o *checkOpts, prog *Program, r *UnitResult, ob *Obligation) *replayResult {
	return runReplayFamily(o, prog, r, ob)
}
