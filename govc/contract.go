package main

// Contract files: comment-only Go files (//go:build verif) named zz_contracts_verif.go inside /repo packages.
// Every line starting with "//@" is contract text.

import (
	"fmt"
	"os"
	"regexp"
	"strconv"
	"strings"
)

type Clause struct {
	Kind  string // requires ensures panics invariant assert assume lemma
	Tags  []string
	Label string
	EachReturn bool // monitor clause: proved at every return statement (in that path's own state) instead of at the merged exit
	By    []string // proof hint: the only quantified assumptions (by label) handed to the solver for this obligation; nil = all
	Src   string
	Expr  SExpr
	Line  int
	File  string
}

type GhostDecl struct {
	Name string
	Type string // Go type or spec sort: int, bool, map[K]V (-> spec array), []T
	Init string
}

type AnchorAction struct {
	Anchor string // e.g. "after call findCyclePath#1", "loop 1 end"
	Kind   string // assert | assume | ghost | use | obtain | exhibit
	Clause *Clause
	Var    string // for ghost assignment
	Index  string // optional index expr source for ghost array update var[idx] := e
	Expr   SExpr
	IdxE   SExpr
	Src    string
}

type LoopSpec struct {
	ID         string // "1", "2", "2.1"? (we use flat pre-order ordinals)
	Invariants []*Clause
	Decreases  *Clause
}

type FuncContract struct {
	Pkg        string
	Name       string
	File       string
	Line       int
	Mode       string // seq | conc
	Requires   []*Clause
	Ensures    []*Clause
	Panics     []*Clause
	Modifies   []string
	ModAll     bool
	Pure       bool
	Interferes bool
	MayPanic   bool
	NoCheck    bool
	NoPanic    bool
	SafetyTags []string
	SafetyOff  bool
	Ghosts     []GhostDecl
	Exports    []string // ghosts whose final values callers may read (ghostof) and whose posts callers may assume
	Loops      map[string]*LoopSpec
	Actions    []*AnchorAction
	Replay     string
	Inline     bool
	Lets       []GhostDecl // let name = expr (evaluated at entry, old state)
	Unchecked  map[string]string // safety label -> reason: obligation not generated, listed in the evidence
	Dead       map[string]bool // return#N sites that the contracts make unreachable (their cover must be unsat)
	Monitor    []*Clause       // type invariants: assumed at entry, re-established at exit, not checked at call sites
}

type FieldDecl struct {
	Type, Field string
	Discipline  string // guarded_by | atomic | immutable | owned
	Mutex       string
	Contents    string // map type string whose contents are guarded too
}

type PredDecl struct {
	Pkg    string
	Name   string
	Params []SBind
	Src    string
	Body   SExpr
}

type ContractSet struct {
	PkgPath string
	LockInvs map[string][]*Clause // "Type.mutex" -> invariants over self
	Preds  map[string]*PredDecl
	Funcs  map[string]*FuncContract
	Fields []*FieldDecl
	Relies []*Clause
	Axioms []*Clause
	Lemmas []*LemmaDecl
}

type LemmaDecl struct {
	Name     string
	Tags     []string
	Vars     []SBind
	Requires []*Clause
	Ensures  []*Clause
	Induct   string   // induction variable (an int var of the lemma): ensures is proved for 0 and from i to i+1, and holds for every i >= 0
	Uses     []string // other lemmas instantiated in the proof: "name(arg, ...)"
	Assumed  string   // non-empty: the lemma is NOT proved (a stated mathematical fact outside the solver's theory); the reason is listed with every use
	Pkg      string
}

var tagRe = regexp.MustCompile(`^([a-z_]+)(\[[A-Za-z0-9, ]+\])?\s*(.*)$`)

var keywords = map[string]bool{"pred": true, "axiom": true, "field": true, "rely": true, "func": true, "mode": true,
	"requires": true, "ensures": true, "panics": true, "modifies": true, "pure": true, "interferes": true, "may_panic": true,
	"nocheck": true, "safety": true, "ghost": true, "loop": true, "invariant": true, "decreases": true, "at": true,
	"replay": true, "inline": true, "lockinv": true, "dead": true, "monitor": true, "unchecked": true, "lemma": true, "let": true, "nopanic": true, "vars": true, "exports": true, "induct": true, "use": true, "assumed": true}

// label by(l1, l2): expr
var byRe = regexp.MustCompile(`^([A-Za-z_][A-Za-z_0-9]*)\s+by\(([^)]*)\)\s*(each_return)?\s*:([^:].*)$`)

func parseTags(s string) []string {
	s = strings.Trim(s, "[]")
	if s == "" {
		return nil
	}
	var out []string
	for _, p := range strings.Split(s, ",") {
		out = append(out, strings.TrimSpace(p))
	}
	return out
}

func splitLabel(rest string) (string, string) {
	// "label: expr" where label is an identifier
	i := strings.Index(rest, ":")
	if i > 0 {
		lab := strings.TrimSpace(rest[:i])
		ok := true
		for _, c := range lab {
			if !(c == '_' || c >= '0' && c <= '9' || c >= 'a' && c <= 'z' || c >= 'A' && c <= 'Z') {
				ok = false
			}
		}
		if ok && !strings.HasPrefix(rest[i:], "::") {
			return lab, strings.TrimSpace(rest[i+1:])
		}
	}
	return "", rest
}

func LoadContractFile(path string, cs *ContractSet) error {
	data, err := os.ReadFile(path)
	if err != nil {
		return err
	}
	type line struct {
		no   int
		text string
	}
	var lines []line
	for i, l := range strings.Split(string(data), "\n") {
		t := strings.TrimSpace(l)
		if !strings.HasPrefix(t, "//@") {
			continue
		}
		t = strings.TrimSpace(t[3:])
		if t == "" || strings.HasPrefix(t, "#") {
			continue
		}
		// strip trailing comment " # ..."
		if j := strings.Index(t, " ## "); j >= 0 {
			t = strings.TrimSpace(t[:j])
		}
		lines = append(lines, line{i + 1, t})
	}
	// join continuation lines
	var joined []line
	for _, l := range lines {
		first := l.text
		if j := strings.IndexAny(first, " [("); j >= 0 {
			first = first[:j]
		}
		if keywords[first] || len(joined) == 0 {
			joined = append(joined, l)
		} else {
			joined[len(joined)-1].text += " " + l.text
		}
	}
	var cur *FuncContract
	var curLoop *LoopSpec
	var curLemma *LemmaDecl
	mkClause := func(kind string, tags []string, rest string, ln int) (*Clause, error) {
		var by []string
		each := false
		if m := byRe.FindStringSubmatch(rest); m != nil {
			by = []string{}
			for _, p := range strings.Split(m[2], ",") {
				if p = strings.TrimSpace(p); p != "" && p != "none" {
					by = append(by, p)
				}
			}
			each = m[3] != ""
			rest = m[1] + ":" + m[4]
		}
		lab, src := splitLabel(rest)
		e, err := ParseSpec(src)
		if err != nil {
			return nil, fmt.Errorf("%s:%d: %v", path, ln, err)
		}
		return &Clause{Kind: kind, Tags: tags, Label: lab, By: by, EachReturn: each, Src: src, Expr: e, Line: ln, File: path}, nil
	}
	for _, l := range joined {
		m := tagRe.FindStringSubmatch(l.text)
		if m == nil {
			return fmt.Errorf("%s:%d: cannot parse %q", path, l.no, l.text)
		}
		kw, tags, rest := m[1], parseTags(m[2]), strings.TrimSpace(m[3])
		switch kw {
		case "pred":
			// pred name(a T, b U) = expr
			i := strings.Index(rest, "(")
			j := strings.Index(rest, ") =")
			if i < 0 || j < 0 {
				return fmt.Errorf("%s:%d: bad pred", path, l.no)
			}
			pd := &PredDecl{Pkg: cs.PkgPath, Name: strings.TrimSpace(rest[:i]), Src: strings.TrimSpace(rest[j+3:])}
			for _, ps := range splitTop(rest[i+1:j], ',') {
				ps = strings.TrimSpace(ps)
				if ps == "" {
					continue
				}
				k := strings.Index(ps, " ")
				pd.Params = append(pd.Params, SBind{ps[:k], strings.TrimSpace(ps[k+1:])})
			}
			e, err := ParseSpec(pd.Src)
			if err != nil {
				return fmt.Errorf("%s:%d: %v", path, l.no, err)
			}
			pd.Body = e
			cs.Preds[pd.Name] = pd
			cur, curLoop, curLemma = nil, nil, nil
		case "axiom":
			c, err := mkClause("axiom", tags, rest, l.no)
			if err != nil {
				return err
			}
			cs.Axioms = append(cs.Axioms, c)
		case "lockinv":
			// lockinv Type.mutex label: expr(self)
			i := strings.Index(rest, " ")
			if i < 0 {
				return fmt.Errorf("%s:%d: bad lockinv", path, l.no)
			}
			c, err := mkClause("lockinv", tags, strings.TrimSpace(rest[i+1:]), l.no)
			if err != nil {
				return err
			}
			if cs.LockInvs == nil {
				cs.LockInvs = map[string][]*Clause{}
			}
			cs.LockInvs[rest[:i]] = append(cs.LockInvs[rest[:i]], c)
		case "rely":
			c, err := mkClause("rely", tags, rest, l.no)
			if err != nil {
				return err
			}
			cs.Relies = append(cs.Relies, c)
		case "field":
			// field Type.f guarded_by mu [contents map[K]V] | atomic | immutable
			parts := strings.Fields(rest)
			if len(parts) < 2 {
				return fmt.Errorf("%s:%d: bad field decl", path, l.no)
			}
			tf := strings.SplitN(parts[0], ".", 2)
			fd := &FieldDecl{Type: tf[0], Field: tf[1], Discipline: parts[1]}
			if parts[1] == "guarded_by" {
				fd.Mutex = parts[2]
				if len(parts) >= 5 && parts[3] == "contents" {
					fd.Contents = strings.Join(parts[4:], " ")
				}
			}
			if parts[1] == "immutable" && len(parts) >= 4 && parts[2] == "contents" {
				fd.Contents = strings.Join(parts[3:], " ")
			}
			cs.Fields = append(cs.Fields, fd)
		case "lemma":
			curLemma = &LemmaDecl{Name: rest, Tags: tags, Pkg: cs.PkgPath}
			cs.Lemmas = append(cs.Lemmas, curLemma)
			cur, curLoop = nil, nil
		case "vars":
			if curLemma == nil {
				return fmt.Errorf("%s:%d: vars outside lemma", path, l.no)
			}
			for _, ps := range splitTop(rest, ',') {
				ps = strings.TrimSpace(ps)
				k := strings.Index(ps, " ")
				curLemma.Vars = append(curLemma.Vars, SBind{ps[:k], strings.TrimSpace(ps[k+1:])})
			}
		case "induct":
			if curLemma == nil {
				return fmt.Errorf("%s:%d: induct outside lemma", path, l.no)
			}
			curLemma.Induct = rest
		case "assumed":
			if curLemma == nil {
				return fmt.Errorf("%s:%d: assumed outside lemma", path, l.no)
			}
			if strings.TrimSpace(rest) == "" {
				return fmt.Errorf("%s:%d: assumed needs a reason", path, l.no)
			}
			curLemma.Assumed = strings.TrimSpace(rest)
		case "use":
			if curLemma == nil {
				return fmt.Errorf("%s:%d: use outside lemma (in functions: at <anchor> : use ...)", path, l.no)
			}
			curLemma.Uses = append(curLemma.Uses, rest)
		case "func":
			cur = &FuncContract{Pkg: cs.PkgPath, Name: rest, File: path, Line: l.no, Mode: "seq", Loops: map[string]*LoopSpec{}}
			if _, dup := cs.Funcs[rest]; dup {
				return fmt.Errorf("%s:%d: duplicate contract for %s", path, l.no, rest)
			}
			cs.Funcs[rest] = cur
			curLoop, curLemma = nil, nil
		default:
			if curLemma != nil && (kw == "requires" || kw == "ensures") {
				c, err := mkClause(kw, tags, rest, l.no)
				if err != nil {
					return err
				}
				if kw == "requires" {
					curLemma.Requires = append(curLemma.Requires, c)
				} else {
					curLemma.Ensures = append(curLemma.Ensures, c)
				}
				continue
			}
			if cur == nil {
				return fmt.Errorf("%s:%d: %s outside func", path, l.no, kw)
			}
			switch kw {
			case "mode":
				cur.Mode = rest
			case "requires", "ensures", "panics":
				c, err := mkClause(kw, tags, rest, l.no)
				if err != nil {
					return err
				}
				switch kw {
				case "requires":
					cur.Requires = append(cur.Requires, c)
				case "ensures":
					cur.Ensures = append(cur.Ensures, c)
				case "panics":
					cur.Panics = append(cur.Panics, c)
				}
				curLoop = nil
			case "modifies":
				for _, p := range splitTop(rest, ',') {
					p = strings.TrimSpace(p)
					if p == "*" {
						cur.ModAll = true
					} else if p != "" && p != "nothing" {
						cur.Modifies = append(cur.Modifies, p)
					}
				}
			case "unchecked":
				// unchecked <label>: reason
				i := strings.Index(rest, ":")
				if i < 0 {
					return fmt.Errorf("%s:%d: unchecked needs 'label: reason'", path, l.no)
				}
				if cur.Unchecked == nil {
					cur.Unchecked = map[string]string{}
				}
				cur.Unchecked[strings.TrimSpace(rest[:i])] = strings.TrimSpace(rest[i+1:])
			case "dead":
				if cur.Dead == nil {
					cur.Dead = map[string]bool{}
				}
				cur.Dead[strings.TrimSpace(rest)] = true
			case "monitor":
				c, err := mkClause("monitor", tags, rest, l.no)
				if err != nil {
					return err
				}
				cur.Monitor = append(cur.Monitor, c)
			case "pure":
				cur.Pure = true
			case "interferes":
				cur.Interferes = true
			case "may_panic":
				cur.MayPanic = true
			case "nopanic":
				cur.NoPanic = true
			case "nocheck":
				cur.NoCheck = true
			case "inline":
				cur.Inline = true
			case "replay":
				cur.Replay = rest
			case "safety":
				cur.SafetyTags = tags
				if rest == "off" {
					cur.SafetyOff = true
				}
			case "ghost":
				// ghost name Type = init
				i := strings.Index(rest, " ")
				j := strings.Index(rest, " = ")
				if i < 0 {
					return fmt.Errorf("%s:%d: bad ghost decl", path, l.no)
				}
				g := GhostDecl{Name: rest[:i]}
				if j > 0 {
					g.Type = strings.TrimSpace(rest[i+1 : j])
					g.Init = strings.TrimSpace(rest[j+3:])
				} else {
					g.Type = strings.TrimSpace(rest[i+1:])
				}
				switch g.Name {
				case "clock", "alloc", "panicking", "panicval", "result", "seen", "idx", "rangekey":
					return fmt.Errorf("%s:%d: ghost name %q is reserved", path, l.no, g.Name)
				}
				cur.Ghosts = append(cur.Ghosts, g)
			case "exports":
				for _, p := range strings.Split(rest, ",") {
					if p = strings.TrimSpace(p); p != "" {
						cur.Exports = append(cur.Exports, p)
					}
				}
			case "let":
				j := strings.Index(rest, " = ")
				if j < 0 {
					return fmt.Errorf("%s:%d: bad let", path, l.no)
				}
				cur.Lets = append(cur.Lets, GhostDecl{Name: strings.TrimSpace(rest[:j]), Init: strings.TrimSpace(rest[j+3:])})
			case "loop":
				id := strings.TrimSpace(rest)
				if _, err := strconv.Atoi(id); err != nil {
					return fmt.Errorf("%s:%d: loop id must be an ordinal", path, l.no)
				}
				curLoop = &LoopSpec{ID: id}
				cur.Loops[id] = curLoop
			case "invariant", "decreases":
				if curLoop == nil {
					return fmt.Errorf("%s:%d: %s outside loop", path, l.no, kw)
				}
				c, err := mkClause(kw, tags, rest, l.no)
				if err != nil {
					return err
				}
				if kw == "invariant" {
					curLoop.Invariants = append(curLoop.Invariants, c)
				} else {
					curLoop.Decreases = c
				}
			case "at":
				// at <anchor> : assert[tags] label: expr | assume label: expr | ghost x := e | ghost x[i] := e
				i := strings.Index(rest, " : ")
				if i < 0 {
					return fmt.Errorf("%s:%d: bad 'at' (need ' : ')", path, l.no)
				}
				anchor := strings.TrimSpace(rest[:i])
				act := strings.TrimSpace(rest[i+3:])
				m2 := tagRe.FindStringSubmatch(act)
				if m2 == nil {
					return fmt.Errorf("%s:%d: bad action", path, l.no)
				}
				a := &AnchorAction{Anchor: anchor, Kind: m2[1], Src: act}
				switch m2[1] {
				case "assert", "assume":
					c, err := mkClause(m2[1], parseTags(m2[2]), m2[3], l.no)
					if err != nil {
						return err
					}
					a.Clause = c
				case "ghost":
					j := strings.Index(m2[3], ":=")
					if j < 0 {
						return fmt.Errorf("%s:%d: bad ghost assignment", path, l.no)
					}
					lhs := strings.TrimSpace(m2[3][:j])
					if k := strings.Index(lhs, "["); k > 0 {
						a.Var = lhs[:k]
						a.Index = lhs[k+1 : len(lhs)-1]
						ie, err := ParseSpec(a.Index)
						if err != nil {
							return fmt.Errorf("%s:%d: %v", path, l.no, err)
						}
						a.IdxE = ie
					} else {
						a.Var = lhs
					}
					e, err := ParseSpec(strings.TrimSpace(m2[3][j+2:]))
					if err != nil {
						return fmt.Errorf("%s:%d: %v", path, l.no, err)
					}
					a.Expr = e
				case "use":
					// use lemma(arg, ...) [when cond]
					body := strings.TrimSpace(m2[3])
					if k := strings.Index(body, " when "); k > 0 {
						c, err := mkClause("when", nil, strings.TrimSpace(body[k+6:]), l.no)
						if err != nil {
							return err
						}
						a.Clause = c
						body = strings.TrimSpace(body[:k])
					}
					e, err := ParseSpec(body)
					if err != nil {
						return fmt.Errorf("%s:%d: %v", path, l.no, err)
					}
					a.Expr = e
				case "exhibit":
					// exhibit[tags] label [by(..)]: x := witness :: clause   (existential introduction: the clause is
					// `exists x T :: body` or a predicate defined as one; body[x := witness] is the obligation, the clause is then known)
					body := strings.TrimSpace(m2[3])
					c0 := strings.Index(body, ":")
					k := strings.Index(body, "::")
					if c0 < 0 || k < 0 || c0 >= k {
						return fmt.Errorf("%s:%d: bad exhibit (need 'label: x := witness :: clause')", path, l.no)
					}
					mid := body[c0+1 : k]
					as := strings.Index(mid, ":=")
					if as < 0 {
						return fmt.Errorf("%s:%d: bad exhibit (need 'x := witness')", path, l.no)
					}
					a.Var = strings.TrimSpace(mid[:as])
					we, err := ParseSpec(strings.TrimSpace(mid[as+2:]))
					if err != nil {
						return fmt.Errorf("%s:%d: %v", path, l.no, err)
					}
					a.Expr = we
					c, err := mkClause("exhibit", parseTags(m2[2]), body[:c0]+": "+strings.TrimSpace(body[k+2:]), l.no)
					if err != nil {
						return err
					}
					a.Clause = c
				case "obtain":
					// obtain name Type :: expr   (existential elimination: proves exists name :: expr, then names a witness)
					body := strings.TrimSpace(m2[3])
					k := strings.Index(body, "::")
					sp := strings.Index(body, " ")
					if k < 0 || sp < 0 || sp > k {
						return fmt.Errorf("%s:%d: bad obtain (need 'name Type :: expr')", path, l.no)
					}
					a.Var = body[:sp]
					a.Index = strings.TrimSpace(body[sp+1 : k])
					byHint := ""
					if b := strings.Index(a.Index, " by("); b > 0 {
						byHint = a.Index[b:]
						a.Index = strings.TrimSpace(a.Index[:b])
					}
					c, err := mkClause("obtain", parseTags(m2[2]), a.Var+"_exists"+byHint+": "+strings.TrimSpace(body[k+2:]), l.no)
					if err != nil {
						return err
					}
					a.Clause = c
				default:
					return fmt.Errorf("%s:%d: unknown action %s", path, l.no, m2[1])
				}
				cur.Actions = append(cur.Actions, a)
			default:
				return fmt.Errorf("%s:%d: unknown keyword %s", path, l.no, kw)
			}
		}
	}
	return nil
}

func splitTop(s string, sep rune) []string {
	var out []string
	depth := 0
	last := 0
	for i, c := range s {
		switch c {
		case '(', '[', '{':
			depth++
		case ')', ']', '}':
			depth--
		}
		if c == sep && depth == 0 {
			out = append(out, s[last:i])
			last = i + 1
		}
	}
	out = append(out, s[last:])
	return out
}

func NewContractSet() *ContractSet {
	return &ContractSet{Preds: map[string]*PredDecl{}, Funcs: map[string]*FuncContract{}}
}
