package main

// Specification expression language: parser (tokens from go/scanner) into a small AST.
//
//   e ::= e ==> e | e <==> e | e || e | e && e | e (==|!=|<|<=|>|>=) e | e (+|-) e | e (*|/|%) e
//       | !e | -e | e.f | e[i] | e[i:j] | f(e,...) | ident | int | "string" | true | false | nil
//       | forall x T, y U :: e | exists x T :: e | (e) | old(e) | e in m | ite(c,a,b)
//       | e.(T)   (type test helper: typeis(e, T)) is written typeis(e, "T")

import (
	"fmt"
	"go/scanner"
	"go/token"
	"strings"
)

type SExpr interface{}

type (
	SIdent  struct{ Name string }
	SIntLit struct{ V string }
	SStrLit struct{ V string }
	SUnary  struct {
		Op string
		X  SExpr
	}
	SBinary struct {
		Op   string
		X, Y SExpr
	}
	SCall struct {
		Fn   string
		Args []SExpr
	}
	SField struct {
		X    SExpr
		Name string
	}
	SIndex struct{ X, I SExpr }
	SSlice struct{ X, Lo, Hi SExpr }
	SQuant struct {
		Forall bool
		MapOf  bool // mapof x T :: e  -- the total map (SMT array) x -> e, introduced by a definitional axiom
		Vars   []SBind
		Body   SExpr
		Pats   [][]SExpr
	}
	SBind struct{ Name, Type string }
)

type tok struct {
	t   token.Token
	lit string
}

type sparser struct {
	toks []tok
	pos  int
	src  string
}

func lexSpec(src string) ([]tok, error) {
	fset := token.NewFileSet()
	f := fset.AddFile("spec", -1, len(src))
	var s scanner.Scanner
	var errs []string
	s.Init(f, []byte(src), func(pos token.Position, msg string) { errs = append(errs, msg) }, 0)
	var out []tok
	for {
		_, t, lit := s.Scan()
		if t == token.EOF {
			break
		}
		if t == token.SEMICOLON && lit == "\n" {
			continue
		}
		out = append(out, tok{t, lit})
	}
	if len(errs) > 0 {
		return nil, fmt.Errorf("lex: %s in %q", strings.Join(errs, "; "), src)
	}
	return out, nil
}

func ParseSpec(src string) (e SExpr, err error) {
	toks, err := lexSpec(src)
	if err != nil {
		return nil, err
	}
	p := &sparser{toks: toks, src: src}
	defer func() {
		if r := recover(); r != nil {
			if s, ok := r.(string); ok {
				err = fmt.Errorf("spec parse error: %s in %q", s, src)
				return
			}
			panic(r)
		}
	}()
	e = p.expr(0)
	if p.pos < len(p.toks) {
		panic(fmt.Sprintf("unexpected token %v %q", p.peek().t, p.peek().lit))
	}
	return e, nil
}

func (p *sparser) peek() tok {
	if p.pos < len(p.toks) {
		return p.toks[p.pos]
	}
	return tok{t: token.EOF}
}
func (p *sparser) peekN(n int) tok {
	if p.pos+n < len(p.toks) {
		return p.toks[p.pos+n]
	}
	return tok{t: token.EOF}
}
func (p *sparser) next() tok { t := p.peek(); p.pos++; return t }
func (p *sparser) expect(t token.Token) tok {
	if p.peek().t != t {
		panic(fmt.Sprintf("expected %v, got %v %q", t, p.peek().t, p.peek().lit))
	}
	return p.next()
}

// binary operator at current position: returns op string, precedence, token count
func (p *sparser) binop() (string, int, int) {
	t := p.peek()
	switch t.t {
	case token.LEQ: // <= or <==>
		if p.peekN(1).t == token.ASSIGN && p.peekN(2).t == token.GTR {
			return "<==>", 1, 3
		}
		return "<=", 5, 1
	case token.EQL: // == or ==>
		if p.peekN(1).t == token.GTR {
			return "==>", 2, 2
		}
		return "==", 5, 1
	case token.LOR:
		return "||", 3, 1
	case token.LAND:
		return "&&", 4, 1
	case token.NEQ:
		return "!=", 5, 1
	case token.LSS:
		return "<", 5, 1
	case token.GTR:
		return ">", 5, 1
	case token.GEQ:
		return ">=", 5, 1
	case token.ADD:
		return "+", 6, 1
	case token.SUB:
		return "-", 6, 1
	case token.MUL:
		return "*", 7, 1
	case token.QUO:
		return "/", 7, 1
	case token.REM:
		return "%", 7, 1
	case token.IDENT:
		if t.lit == "in" {
			return "in", 5, 1
		}
	}
	return "", 0, 0
}

func (p *sparser) expr(minPrec int) SExpr {
	lhs := p.unary()
	for {
		op, prec, n := p.binop()
		if op == "" || prec < minPrec {
			return lhs
		}
		p.pos += n
		var rhs SExpr
		if op == "==>" { // right assoc
			rhs = p.expr(prec)
		} else {
			rhs = p.expr(prec + 1)
		}
		lhs = &SBinary{Op: op, X: lhs, Y: rhs}
	}
}

func (p *sparser) unary() SExpr {
	t := p.peek()
	switch t.t {
	case token.NOT:
		p.next()
		return &SUnary{Op: "!", X: p.unary()}
	case token.SUB:
		p.next()
		return &SUnary{Op: "-", X: p.unary()}
	case token.IDENT:
		if t.lit == "forall" || t.lit == "exists" || t.lit == "mapof" {
			return p.quant()
		}
	}
	return p.postfix(p.primary())
}

func (p *sparser) typeString() string {
	// read tokens forming a Go type until ',' or '::' at depth 0
	var b strings.Builder
	depth := 0
	for {
		t := p.peek()
		if t.t == token.EOF {
			break
		}
		if depth == 0 && (t.t == token.COMMA || (t.t == token.COLON && p.peekN(1).t == token.COLON)) {
			break
		}
		switch t.t {
		case token.LBRACK, token.LPAREN, token.LBRACE:
			depth++
		case token.RBRACK, token.RPAREN, token.RBRACE:
			depth--
		}
		if t.lit != "" {
			if b.Len() > 0 && (t.t == token.IDENT || t.t.IsKeyword()) {
				last := b.String()[b.Len()-1]
				if last != '.' && last != '*' && last != ']' && last != '[' && last != '(' {
					b.WriteByte(' ')
				}
			}
			b.WriteString(t.lit)
		} else {
			b.WriteString(t.t.String())
		}
		p.next()
	}
	return b.String()
}

func (p *sparser) quant() SExpr {
	kw := p.next().lit
	qe := &SQuant{Forall: kw == "forall", MapOf: kw == "mapof"}
	for {
		name := p.expect(token.IDENT).lit
		ty := p.typeString()
		qe.Vars = append(qe.Vars, SBind{name, ty})
		if p.peek().t == token.COMMA {
			p.next()
			continue
		}
		break
	}
	p.expect(token.COLON)
	p.expect(token.COLON)
	// optional triggers: {e1, e2} {e3}
	for p.peek().t == token.LBRACE {
		p.next()
		var pat []SExpr
		for {
			pat = append(pat, p.expr(0))
			if p.peek().t == token.COMMA {
				p.next()
				continue
			}
			break
		}
		p.expect(token.RBRACE)
		qe.Pats = append(qe.Pats, pat)
	}
	qe.Body = p.expr(0)
	return qe
}

func (p *sparser) primary() SExpr {
	t := p.next()
	switch t.t {
	case token.INT:
		return &SIntLit{t.lit}
	case token.STRING:
		s := t.lit
		if len(s) >= 2 {
			s = s[1 : len(s)-1]
		}
		return &SStrLit{s}
	case token.LPAREN:
		e := p.expr(0)
		p.expect(token.RPAREN)
		return e
	case token.IDENT:
		return &SIdent{t.lit}
	case token.FUNC, token.TYPE, token.MAP, token.RANGE, token.VAR:
		return &SIdent{t.lit}
	}
	panic(fmt.Sprintf("unexpected token %v %q", t.t, t.lit))
}

func (p *sparser) postfix(e SExpr) SExpr {
	for {
		switch p.peek().t {
		case token.PERIOD:
			p.next()
			name := p.expect(token.IDENT).lit
			e = &SField{e, name}
		case token.LBRACK:
			p.next()
			if p.peek().t == token.COLON {
				p.next()
				hi := p.expr(0)
				p.expect(token.RBRACK)
				e = &SSlice{e, nil, hi}
				continue
			}
			i := p.expr(0)
			if p.peek().t == token.COLON {
				p.next()
				var hi SExpr
				if p.peek().t != token.RBRACK {
					hi = p.expr(0)
				}
				p.expect(token.RBRACK)
				e = &SSlice{e, i, hi}
				continue
			}
			p.expect(token.RBRACK)
			e = &SIndex{e, i}
		case token.LPAREN:
			id, ok := e.(*SIdent)
			if !ok {
				panic("call of non-identifier")
			}
			p.next()
			var args []SExpr
			for p.peek().t != token.RPAREN {
				args = append(args, p.expr(0))
				if p.peek().t == token.COMMA {
					p.next()
				}
			}
			p.expect(token.RPAREN)
			e = &SCall{id.Name, args}
		default:
			return e
		}
	}
}

// mentionsIdent reports whether the identifier occurs free in the expression (binders of the same name shadow it).
func mentionsIdent(e SExpr, name string) bool {
	switch v := e.(type) {
	case *SIdent:
		return v.Name == name
	case *SUnary:
		return mentionsIdent(v.X, name)
	case *SBinary:
		return mentionsIdent(v.X, name) || mentionsIdent(v.Y, name)
	case *SCall:
		for _, a := range v.Args {
			if mentionsIdent(a, name) {
				return true
			}
		}
	case *SField:
		return mentionsIdent(v.X, name)
	case *SIndex:
		return mentionsIdent(v.X, name) || mentionsIdent(v.I, name)
	case *SSlice:
		return mentionsIdent(v.X, name) || (v.Lo != nil && mentionsIdent(v.Lo, name)) || (v.Hi != nil && mentionsIdent(v.Hi, name))
	case *SQuant:
		for _, b := range v.Vars {
			if b.Name == name {
				return false
			}
		}
		return mentionsIdent(v.Body, name)
	}
	return false
}
