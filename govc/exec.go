package main

// Symbolic execution core: states, heap components, merging, obligations.

import (
	"fmt"
	"go/ast"
	"go/token"
	"go/types"
	"sort"
	"strings"

	"golang.org/x/tools/go/packages"
)

type Obligation struct {
	Name    string
	Kind    string
	Label   string
	Tags    []string
	PC      Term
	Cond    Term
	NAssume int
	By      []string // non-nil: only quantified assumptions with these labels are used (see Clause.By)
	Src     string
	Pos     string
	Unit    string
	// results
	Status  string // unsat (discharged) | sat | unknown | timeout | error
	Solver  string
	TimeS   float64
	Model   string
	Query   string
	IsCover bool
}

type State struct {
	pc    Term
	vars  map[types.Object]Term
	heap  map[string]Term
	epoch int
}

func (s *State) clone() *State {
	n := &State{pc: s.pc, epoch: s.epoch, vars: make(map[types.Object]Term, len(s.vars)), heap: make(map[string]Term, len(s.heap))}
	for k, v := range s.vars {
		n.vars[k] = v
	}
	for k, v := range s.heap {
		n.heap[k] = v
	}
	return n
}

func (s *State) dead() bool { return s == nil || s.pc.S == "false" }

type origin struct {
	pc    Term
	epoch int
}

type frame struct {
	results    []types.Object // named results or synthetic
	resSorts   []*Sort
	resTypes   []types.Type
	returns    []*State
	panics     []*State
	defers     []*deferRec
	loops      []*loopCtx
	recoverOK  bool // inside deferred closure (recover meaningful)
	parent     *frame
	unitTop    bool
	switchCtxs []*switchCtx
	brkStack      []brkEntry
	fallthroughSt *State
}

type switchCtx struct {
	breaks []*State
	label  string
}

type loopCtx struct {
	breaks    []*State
	continues []*State
	label     string
}

type deferRec struct {
	id   int
	call *ast.CallExpr
	prep *preparedCall
}

type Unit struct {
	P       *Program
	FU      *FuncUnit
	U       *Universe
	pkg     *packages.Package
	info    *types.Info
	cs      *ContractSet
	mode    string
	assumes []string
	obls    []*Obligation

	compSorts    map[string]*Sort
	compAt       map[string]Term
	epochCtr     int
	epochOrigins map[int][]origin
	havocParent  map[int]int
	entry        *State
	fr           *frame
	loopOrd      map[ast.Stmt]int
	before       map[ast.Node][]*AnchorAction
	after        map[ast.Node][]*AnchorAction
	actionStmt   map[*AnchorAction]ast.Node
	warnings     []string
	abstractions map[string]bool
	deferCtr     int
	inlineDepth  int
	inLoopRefine bool
	litActive    map[*ast.FuncLit]int  // literals being inlined (recursion through a closure variable)
	litModsBusy  map[*ast.FuncLit]bool // literals whose write set is being computed
	inlineStack  []*FuncUnit
	nameCtr      map[string]int
	synthObjs    map[string]types.Object
	ghostSorts   map[string]*Sort
	ghostTypes   map[string]types.Type
	fieldDecls   map[string]*FieldDecl // "Type.field"
	lets         map[string]Term
	specLocals   []map[string]Term
	lastGhost    map[string]Term // callee name + ":" + exported ghost -> value after the most recent call
	assumeLabels map[int]string // index into assumes -> clause label (absent: structural definition, always kept)
	curLabel     string
	pendingBy    []string
	seenStack    []Term
	idxStack     []Term
	curLoopScope []ast.Node
	traceKeys    map[string][]*Sort
	callOrd      map[string]int
	unsupported  []string
	closureBind  map[types.Object]*ast.FuncLit
	usedActions  map[*AnchorAction]bool
	usedLoops    map[string]bool
	covers       []*Obligation
	callees      map[string]bool
	trusted      map[string]bool
	sentinels    map[string]bool
	litOf        map[string]*ast.FuncLit
	loopEnd      map[ast.Node][]*AnchorAction
	lastIdx      map[ast.Stmt]Term
	rkStack      []Term
	loopTraceHavoc []*State
	newErrs      []Term
	newCtxs      []Term
	topFrame     *frame
	isParam      map[types.Object]bool
	curScopePos  token.Pos
	clausePos    map[*Clause]token.Pos
	bvCtr        int
	tracedKeys   map[string]bool
	pureSorts    map[string]*Sort
	assumedAt    []string
	nLoops       int
	retOrd       int
	immMaps      map[string]bool
	modsTop      bool
	modCache     map[*FuncUnit]*modSet
	modStack     []*FuncUnit
	loopStmtStack []ast.Stmt
	loopKeys     map[ast.Stmt]map[string]bool
	pass         int
	curCallSite  string
	panicSites   map[string]bool
	compGoT      map[string]types.Type
	epochAlloc   map[int]Term
}

type unsupportedErr struct{ msg string }

func (x *Unit) fail(n ast.Node, format string, args ...any) {
	msg := fmt.Sprintf(format, args...)
	if n != nil {
		msg = x.P.pos(n) + ": " + msg
	}
	panic(unsupportedErr{msg})
}

func NewUnit(p *Program, fu *FuncUnit) *Unit {
	x := &Unit{P: p, FU: fu, U: NewUniverse(), pkg: fu.Pkg, info: fu.Pkg.TypesInfo, cs: p.Contracts[fu.Pkg.PkgPath],
		compSorts: map[string]*Sort{}, compAt: map[string]Term{}, epochOrigins: map[int][]origin{}, havocParent: map[int]int{},
		loopOrd: map[ast.Stmt]int{}, before: map[ast.Node][]*AnchorAction{}, after: map[ast.Node][]*AnchorAction{},
		actionStmt: map[*AnchorAction]ast.Node{}, abstractions: map[string]bool{}, nameCtr: map[string]int{},
		synthObjs: map[string]types.Object{}, ghostSorts: map[string]*Sort{}, ghostTypes: map[string]types.Type{},
		fieldDecls: map[string]*FieldDecl{}, lets: map[string]Term{}, lastGhost: map[string]Term{}, traceKeys: map[string][]*Sort{}, callOrd: map[string]int{},
		closureBind: map[types.Object]*ast.FuncLit{}, usedActions: map[*AnchorAction]bool{}, usedLoops: map[string]bool{},
		callees: map[string]bool{}, trusted: map[string]bool{}, sentinels: map[string]bool{}, litOf: map[string]*ast.FuncLit{},
		loopEnd: map[ast.Node][]*AnchorAction{}, lastIdx: map[ast.Stmt]Term{}, isParam: map[types.Object]bool{}, clausePos: map[*Clause]token.Pos{},
		tracedKeys: map[string]bool{}, pureSorts: map[string]*Sort{}, compGoT: map[string]types.Type{}, epochAlloc: map[int]Term{}, loopKeys: map[ast.Stmt]map[string]bool{}, panicSites: map[string]bool{}, modCache: map[*FuncUnit]*modSet{}}
	x.mode = "seq"
	if fu.Contract != nil && fu.Contract.Mode != "" {
		x.mode = fu.Contract.Mode
	}
	for _, cs := range p.Contracts {
		for _, fd := range cs.Fields {
			x.fieldDecls[fd.Type+"."+fd.Field] = fd
		}
	}
	return x
}

// ---------------------------------------------------------------------------
// naming / assumptions

func (x *Unit) define(base string, t Term) Term {
	// keep atoms as they are
	if !strings.ContainsAny(t.S, " (") {
		return t
	}
	x.nameCtr[base]++
	name := q(fmt.Sprintf("%s#%d", base, x.nameCtr[base]))
	c := x.U.Const(name, t.Sort)
	c.GoT = t.GoT
	x.assumes = append(x.assumes, "(= "+c.S+" "+t.S+")")
	return c
}

func (x *Unit) freshVal(base string, s *Sort, g types.Type) Term {
	x.nameCtr[base]++
	name := q(fmt.Sprintf("%s#%d", base, x.nameCtr[base]))
	c := x.U.Const(name, s)
	c.GoT = g
	x.typeInv(c)
	return c
}

// typeInv adds always-true facts about a fresh/loaded value (slice len >= 0).
func (x *Unit) typeInv(t Term) {
	if t.Sort != nil && t.Sort.Kind == KSlice && !strings.Contains(t.S, "bv!") {
		ln := x.U.SliceLen(t)
		x.assumes = append(x.assumes, "(>= "+ln.S+" 0)")
		x.assumes = append(x.assumes, "(=> "+x.U.SliceNil(t).S+" (= "+ln.S+" 0))")
	}
}

func (x *Unit) assume(st *State, fact Term) {
	if fact.S == "true" {
		return
	}
	x.assumes = append(x.assumes, Implies(st.pc, fact).S)
	if x.assumeLabels == nil {
		x.assumeLabels = map[int]string{}
	}
	x.assumeLabels[len(x.assumes)-1] = x.curLabel
}

// assumeAs records a fact under a clause label, so that a `by(...)` hint can select it.
func (x *Unit) assumeAs(st *State, label string, fact Term) {
	saved := x.curLabel
	x.curLabel = label
	x.assume(st, fact)
	x.curLabel = saved
}

// obligeBy is oblige with a proof hint.
func (x *Unit) obligeBy(by []string, st *State, kind, label string, tags []string, cond Term, src string, node ast.Node) {
	x.pendingBy = by
	x.oblige(st, kind, label, tags, cond, src, node)
	x.pendingBy = nil
}

func (x *Unit) withCond(st *State, c Term) *State {
	n := st.clone()
	if c.S == "true" {
		return n
	}
	if c.S == "false" || st.pc.S == "false" {
		n.pc = False
		return n
	}
	n.pc = x.define("pc", And(st.pc, c))
	return n
}

func (x *Unit) oblige(st *State, kind, label string, tags []string, cond Term, src string, node ast.Node) {
	if st.dead() || cond.S == "true" {
		// still record trivially discharged obligations for named clauses so counts are stable
		if kind == "safety" || kind == "guard" {
			return
		}
	}
	if kind == "safety" && x.FU.Contract != nil {
		if why, ok := x.FU.Contract.Unchecked[label]; ok {
			// the entry is keyed by an ordinal, which moves when a site before it is added or removed: its reason therefore
			// starts with the source text of the expression it is about, and an entry that now points at another expression
			// is a generation error, not a silently re-targeted assumption
			if e, isExpr := node.(ast.Expr); isExpr {
				squeeze := func(t string) string { return strings.Join(strings.Fields(t), "") }
				if !strings.HasPrefix(squeeze(why), squeeze(types.ExprString(e))) {
					x.fail(node, "unchecked %s: the site with this ordinal is now `%s`, but the entry describes `%.60s…` (a site before it was added or removed?)", label, types.ExprString(e), why)
				}
			}
			x.assumedAt = append(x.assumedAt, fmt.Sprintf("%s: safety condition %s (%s) is NOT checked: %s", x.FU.Name, label, src, why))
			return
		}
	}
	name := x.FU.Pkg.Name + "." + x.FU.Name + "#" + kind
	if label != "" {
		name += "[" + label + "]"
	}
	// ensure unique names
	base := name
	n := 1
	for {
		dup := false
		for _, o := range x.obls {
			if o.Name == name {
				dup = true
				break
			}
		}
		if !dup {
			break
		}
		n++
		name = fmt.Sprintf("%s~%d", base, n)
	}
	pos := ""
	if node != nil {
		pos = x.P.pos(node)
	}
	pc := True
	if st != nil {
		pc = st.pc
	}
	x.obls = append(x.obls, &Obligation{Name: name, Kind: kind, Label: label, Tags: tags, PC: pc, Cond: cond, NAssume: len(x.assumes), By: x.pendingBy, Src: src, Pos: pos, Unit: x.FU.Name})
}

// ---------------------------------------------------------------------------
// heap components

func (x *Unit) compSort(comp string) *Sort {
	if s, ok := x.compSorts[comp]; ok {
		return s
	}
	panic("unknown component sort: " + comp)
}

func (x *Unit) regComp(comp string, s *Sort) string {
	if old, ok := x.compSorts[comp]; ok {
		if old != s && old.Name != s.Name {
			panic(fmt.Sprintf("component %s sort clash %s vs %s", comp, old.Name, s.Name))
		}
		return comp
	}
	x.compSorts[comp] = s
	return comp
}

func (x *Unit) initial(comp string, epoch int) Term {
	k := fmt.Sprintf("%s@e%d", comp, epoch)
	if t, ok := x.compAt[k]; ok {
		return t
	}
	s := x.compSort(comp)
	if exemptFromHavocAll(comp) || x.isImmutableComp(comp) {
		if pe, ok := x.havocParent[epoch]; ok {
			t := x.initial(comp, pe)
			x.compAt[k] = t
			return t
		}
	}
	var t Term
	if origs, ok := x.epochOrigins[epoch]; ok {
		// merged epoch: ite over origins
		t = x.initial(comp, origs[len(origs)-1].epoch)
		for i := len(origs) - 2; i >= 0; i-- {
			t = Ite(origs[i].pc, x.initial(comp, origs[i].epoch), t)
		}
		t = x.define(comp+"@m", t)
	} else if epoch == 0 && isZeroInitComp(comp) {
		t = x.zeroComp(comp, s)
	} else {
		t = x.U.Const(q(k), s)
		t.Sort = s
		x.compAt[k] = t
		x.boundComp(comp, t, x.allocAt(epoch))
	}
	t.Sort = s
	x.compAt[k] = t
	return t
}

func (x *Unit) allocAt(epoch int) Term {
	if a, ok := x.epochAlloc[epoch]; ok {
		return a
	}
	if epoch == 0 {
		x.regComp("alloc", SInt)
		return x.initial("alloc", 0)
	}
	if pe, ok := x.havocParent[epoch]; ok {
		return x.allocAt(pe)
	}
	return Term{}
}

// refBound: every reference inside value v (of Go type t) is an allocated one (<= alloc).
func (x *Unit) refBound(v Term, t types.Type, alloc Term, depth int) string {
	if t == nil || depth > 3 {
		return ""
	}
	switch ut := t.Underlying().(type) {
	case *types.Pointer, *types.Map, *types.Chan, *types.Signature:
		return "(and (>= " + v.S + " 0) (<= " + v.S + " " + alloc.S + "))"
	case *types.Slice:
		if v.Sort.Kind != KSlice {
			return ""
		}
		// a slice held by an allocated object is a real slice: its length is not negative
		wfLen := "(>= " + x.U.SliceLen(v).S + " 0)"
		el := Select(x.U.SliceArr(v), T("bv!ri", SInt))
		inner := x.refBound(el, ut.Elem(), alloc, depth+1)
		if inner == "" {
			return wfLen
		}
		return "(and " + wfLen + " (forall ((bv!ri Int)) (! " + inner + " :pattern (" + el.S + "))))"
	case *types.Struct:
		if v.Sort.Kind != KStruct {
			return ""
		}
		var parts []string
		for i := 0; i < ut.NumFields(); i++ {
			f := ut.Field(i)
			if v.Sort.fieldIndex(f.Name()) < 0 {
				continue
			}
			if p := x.refBound(x.U.StructGet(v, f.Name()), f.Type(), alloc, depth+1); p != "" {
				parts = append(parts, p)
			}
		}
		if len(parts) == 0 {
			return ""
		}
		return "(and " + strings.Join(parts, " ") + " true)"
	}
	return ""
}

func (x *Unit) boundComp(comp string, t Term, alloc Term) {
	gt, ok := x.compGoT[comp]
	if !ok || alloc.S == "" {
		return
	}
	switch {
	case strings.HasPrefix(comp, "F:"):
		// fields of objects allocated so far point to objects allocated so far; nothing is said about objects
		// that do not exist yet (callees may allocate them and set their fields)
		el := Select(t, T("bv!r", SInt))
		el.Sort = t.Sort.Elem
		if p := x.refBound(el, gt, alloc, 0); p != "" {
			x.assumes = append(x.assumes, "(forall ((bv!r Int)) (! (=> (and (< 0 bv!r) (<= bv!r "+alloc.S+")) "+p+") :pattern ("+el.S+")))")
		}
	case strings.HasPrefix(comp, "MV:"):
		mt := gt.(*types.Map)
		ks := x.U.SortOf(mt.Key())
		el := Select(Select(t, T("bv!m", SInt)), T("bv!k", ks))
		el.Sort = x.U.SortOf(mt.Elem())
		if p := x.refBound(el, mt.Elem(), alloc, 0); p != "" {
			x.assumes = append(x.assumes, "(forall ((bv!m Int) (bv!k "+ks.Name+")) (! (=> (and (< 0 bv!m) (<= bv!m "+alloc.S+")) "+p+") :pattern ("+el.S+")))")
		}
	}
}

func isZeroInitComp(comp string) bool {
	return strings.HasPrefix(comp, "TL:") || comp == "clk" || comp == "$panicking" || strings.HasPrefix(comp, "D:") || comp == "$nlocks" || strings.HasPrefix(comp, "L:")
}

func (x *Unit) zeroComp(comp string, s *Sort) Term {
	switch s.Kind {
	case KInt:
		return T("0", SInt)
	case KBool:
		return False
	case KArray:
		if s.Elem == SInt {
			return T("((as const "+s.Name+") 0)", s)
		}
	}
	return x.U.Const(q(comp+"@e0"), s)
}

func (x *Unit) get(st *State, comp string) Term {
	if t, ok := st.heap[comp]; ok {
		return t
	}
	t := x.initial(comp, st.epoch)
	st.heap[comp] = t
	return t
}

func (x *Unit) set(st *State, comp string, t Term) {
	s := x.compSort(comp)
	nt := x.define(comp, t)
	nt.Sort = s
	st.heap[comp] = nt
}

func exemptFromHavocAll(comp string) bool {
	return strings.HasPrefix(comp, "D:") || strings.HasPrefix(comp, "DA:") || comp == "$panicking" || comp == "$panicval" ||
		strings.HasPrefix(comp, "R:") || strings.HasPrefix(comp, "gh:") || strings.HasPrefix(comp, "TL:") || strings.HasPrefix(comp, "TA:") ||
		strings.HasPrefix(comp, "TR:") || strings.HasPrefix(comp, "TT:") || strings.HasPrefix(comp, "TP:") || comp == "clk" || strings.HasPrefix(comp, "L:") || comp == "$nlocks" || comp == "alloc"
}

// immutableMapComps: contents of maps held in fields declared "immutable contents <maptype>"
func (x *Unit) immutableMapComps() map[string]bool {
	if x.immMaps != nil {
		return x.immMaps
	}
	x.immMaps = map[string]bool{}
	for _, fd := range x.fieldDecls {
		if fd.Discipline == "immutable" && fd.Contents != "" {
			func() {
				defer func() { recover() }()
				t := x.resolveTypeAny(fd.Contents)
				if mt, ok := t.Underlying().(*types.Map); ok {
					d, v, c, _, _ := x.mapComps(mt)
					x.immMaps[d], x.immMaps[v], x.immMaps[c] = true, true, true
				}
			}()
		}
	}
	return x.immMaps
}

func (x *Unit) isImmutableComp(comp string) bool {
	if strings.HasPrefix(comp, "M") && x.immutableMapComps()[comp] {
		return true
	}
	if strings.HasPrefix(comp, "F:") {
		name := comp[2:]
		if fd, ok := x.fieldDecls[name]; ok && fd.Discipline == "immutable" {
			return true
		}
		if parts := strings.Split(name, "."); len(parts) == 3 {
			if fd, ok := x.fieldDecls[parts[1]+"."+parts[2]]; ok && fd.Discipline == "immutable" {
				return true
			}
		}
	}
	return false
}

// havocAll forgets every heap component except frame-local bookkeeping and immutable fields.
func (x *Unit) havocAll(st *State) {
	old := st.heap
	x.epochCtr++
	oldEpoch := st.epoch
	st.epoch = x.epochCtr
	st.heap = map[string]Term{}
	keep := func(k string) bool { return exemptFromHavocAll(k) || x.isImmutableComp(k) }
	for k, v := range old {
		if keep(k) {
			st.heap[k] = v
		}
	}
	// components not yet materialised but exempt must keep their old-epoch identity
	for comp := range x.compSorts {
		if keep(comp) {
			if _, ok := st.heap[comp]; !ok {
				st.heap[comp] = x.initial(comp, oldEpoch)
			}
		}
	}
	// alloc only grows
	oa, ok := old["alloc"]
	if !ok {
		x.regComp("alloc", SInt)
		oa = x.initial("alloc", oldEpoch)
	}
	na := x.freshVal("alloc", SInt, nil)
	x.assumes = append(x.assumes, "(>= "+na.S+" "+oa.S+")")
	st.heap["alloc"] = na
	x.epochAlloc[st.epoch] = na
	x.havocParent[st.epoch] = oldEpoch
}

func (x *Unit) havocComp(st *State, comp string) {
	s := x.compSort(comp)
	nv := x.freshVal(comp, s, nil)
	st.heap[comp] = nv
	if comp != "alloc" {
		x.regComp("alloc", SInt)
		x.boundComp(comp, nv, x.get(st, "alloc"))
	}
}

// ---------------------------------------------------------------------------
// merging

func (x *Unit) merge(states ...*State) *State {
	var live []*State
	for _, s := range states {
		if !s.dead() {
			live = append(live, s)
		}
	}
	if len(live) == 0 {
		d := &State{pc: False, vars: map[types.Object]Term{}, heap: map[string]Term{}}
		return d
	}
	if len(live) == 1 {
		return live[0].clone()
	}
	out := &State{vars: map[types.Object]Term{}, heap: map[string]Term{}}
	pcs := make([]Term, len(live))
	for i, s := range live {
		pcs[i] = s.pc
	}
	out.pc = x.define("pc", Or(pcs...))
	// epoch
	same := true
	for _, s := range live {
		if s.epoch != live[0].epoch {
			same = false
		}
	}
	if same {
		out.epoch = live[0].epoch
	} else {
		x.epochCtr++
		out.epoch = x.epochCtr
		var origs []origin
		for _, s := range live {
			origs = append(origs, origin{s.pc, s.epoch})
		}
		x.epochOrigins[out.epoch] = origs
	}
	// vars: union; a state in which a variable is not (yet) declared contributes an arbitrary value
	// (the variable cannot be observed on that path: it is out of scope there)
	allVars := map[types.Object]Term{}
	var order []types.Object
	for _, s := range live {
		for k, v := range s.vars {
			if _, ok := allVars[k]; !ok {
				allVars[k] = v
				order = append(order, k)
			}
		}
	}
	sort.Slice(order, func(i, j int) bool {
		if order[i].Pos() != order[j].Pos() {
			return order[i].Pos() < order[j].Pos()
		}
		return order[i].Name() < order[j].Name()
	})
	for _, k := range order {
		v0 := allVars[k]
		vals := make([]Term, len(live))
		diff := false
		for i, s := range live {
			v, ok := s.vars[k]
			if !ok {
				v = x.freshVal(k.Name()+"?", v0.Sort, v0.GoT)
			}
			vals[i] = v
			if v.S != vals[0].S {
				diff = true
			}
		}
		if !diff {
			out.vars[k] = vals[0]
			continue
		}
		t := vals[len(live)-1]
		for i := len(live) - 2; i >= 0; i-- {
			t = Ite(live[i].pc, vals[i], t)
		}
		nt := x.define(k.Name(), t)
		nt.GoT = v0.GoT
		nt.Sort = v0.Sort
		out.vars[k] = nt
	}
	// heap: union of keys
	keys := map[string]bool{}
	for _, s := range live {
		for k := range s.heap {
			keys[k] = true
		}
	}
	ks := make([]string, 0, len(keys))
	for k := range keys {
		ks = append(ks, k)
	}
	sort.Strings(ks)
	for _, k := range ks {
		vals := make([]Term, len(live))
		diff := false
		for i, s := range live {
			vals[i] = x.get(s, k)
			if vals[i].S != vals[0].S {
				diff = true
			}
		}
		if !diff {
			out.heap[k] = vals[0]
			continue
		}
		t := vals[len(vals)-1]
		for i := len(live) - 2; i >= 0; i-- {
			t = Ite(live[i].pc, vals[i], t)
		}
		nt := x.define(k, t)
		nt.Sort = x.compSort(k)
		out.heap[k] = nt
	}
	return out
}

// ---------------------------------------------------------------------------
// component helpers for Go types

func (x *Unit) fieldComp(structT types.Type, field string) (string, *Sort, types.Type) {
	named, _ := types.Unalias(structT).(*types.Named)
	var st *types.Struct
	var tname string
	if named != nil {
		st, _ = named.Underlying().(*types.Struct)
		tname = named.Obj().Name()
		if named.Obj().Pkg() != nil && named.Obj().Pkg().Path() != x.pkg.PkgPath {
			tname = named.Obj().Pkg().Name() + "." + tname
		}
	} else {
		st, _ = structT.Underlying().(*types.Struct)
		tname = shortTypeString(structT)
	}
	if st == nil {
		panic("fieldComp: not a struct: " + structT.String())
	}
	for i := 0; i < st.NumFields(); i++ {
		f := st.Field(i)
		if f.Name() == field {
			fs := x.U.SortOf(f.Type())
			comp := "F:" + tname + "." + field
			x.regComp(comp, x.U.arraySort(SInt, fs))
			x.compGoT[comp] = f.Type()
			return comp, fs, f.Type()
		}
	}
	panic("fieldComp: no field " + field + " in " + structT.String())
}

func (x *Unit) mapComps(mt *types.Map) (dom, val, card string, ks, vs *Sort) {
	ks = x.U.SortOf(mt.Key())
	vs = x.U.SortOf(mt.Elem())
	id := shortTypeString(types.Unalias(mt.Key())) + "," + shortTypeString(types.Unalias(mt.Elem()))
	id = strings.NewReplacer("|", "!", "\\", "/").Replace(id)
	dom = x.regComp("MD:"+id, x.U.arraySort(SInt, x.U.arraySort(ks, SBool)))
	val = x.regComp("MV:"+id, x.U.arraySort(SInt, x.U.arraySort(ks, vs)))
	card = x.regComp("MC:"+id, x.U.arraySort(SInt, SInt))
	x.compGoT[val] = mt
	return
}

func (x *Unit) alloc(st *State) Term {
	x.regComp("alloc", SInt)
	a := x.get(st, "alloc")
	if st.epoch == 0 {
		if _, done := x.compAt["alloc@pos"]; !done {
			x.compAt["alloc@pos"] = True
			x.assumes = append(x.assumes, "(>= "+x.initial("alloc", 0).S+" 0)")
		}
	}
	n := x.define("ref", T("(+ "+a.S+" 1)", SInt))
	st.heap["alloc"] = n
	return n
}

func (x *Unit) warn(format string, args ...any) {
	w := fmt.Sprintf(format, args...)
	for _, o := range x.warnings {
		if o == w {
			return
		}
	}
	x.warnings = append(x.warnings, w)
}
