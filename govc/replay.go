package main

// Replay families and bounded stand-ins: Go tests kept under /verif/replay, injected into the real packages with
// `go test -overlay` (nothing is written into /repo). A replay test FAILS, printing REPLAY-CONFIRMED, when the real code
// exhibits the violation.

import (
	"encoding/json"
	"fmt"
	"os"
	"os/exec"
	"path/filepath"
	"regexp"
	"strings"
	"sync"
	"time"
)

type replayEntry struct {
	Name        string            `json:"name"`
	Kind        string            `json:"kind"` // replay | bounded
	Properties  []string          `json:"properties"`
	Obligations string            `json:"obligations"` // regexp on obligation names (replay)
	Dir         string            `json:"dir"`         // package dir relative to the repo root ("." for the root package)
	Module      string            `json:"module"`      // module dir ("." root)
	Files       map[string]string `json:"files"`       // repo-relative target -> /verif-relative source
	Run         string            `json:"run"`
	Env         map[string]string `json:"env"`
	EnvThorough map[string]string `json:"env_thorough"`
	Bound       string            `json:"bound"`
	Claims      string            `json:"stands_in_for"`
}

// replayRoot is the directory the replay index was read from; the files it names are relative to it.
var replayRoot = "/verif"

func loadReplayIndex() []replayEntry {
	var idx struct {
		Entries []replayEntry `json:"entries"`
	}
	replayRoot = verifRoot
	data, err := os.ReadFile(filepath.Join(verifRoot, "replay", "index.json"))
	if err != nil {
		// the index, and the test files it names, always live in the real /verif (a scratch VERIF_ROOT holds only ledgers)
		replayRoot = "/verif"
		data, err = os.ReadFile("/verif/replay/index.json")
		if err != nil {
			return nil
		}
	}
	json.Unmarshal(data, &idx)
	return idx.Entries
}

type testRun struct {
	Cmd     string  `json:"cmd"`
	Failed  bool    `json:"failed"`
	Output  string  `json:"output"`
	WallS   float64 `json:"wall_s"`
	Summary string  `json:"summary"`
}

func runReplayTest(o *checkOpts, e replayEntry, thorough bool) testRun {
	scratch, _ := os.MkdirTemp(scratchBase(), "replay.")
	defer os.RemoveAll(scratch)
	ov := map[string]map[string]string{"Replace": {}}
	for target, src := range e.Files {
		s := src
		if !filepath.IsAbs(s) {
			s = filepath.Join(replayRoot, src)
		}
		ov["Replace"][filepath.Join(o.repo, target)] = s
	}
	ovp := filepath.Join(scratch, "overlay.json")
	data, _ := json.Marshal(ov)
	os.WriteFile(ovp, data, 0o644)
	moddir := filepath.Join(o.repo, e.Module)
	pkg := "./" + strings.TrimPrefix(strings.TrimPrefix(e.Dir, e.Module), "/")
	if e.Dir == e.Module || e.Dir == "." {
		pkg = "."
	}
	args := []string{"test", "-v", "-overlay", ovp, "-vet=off", "-count=1", "-timeout", "600s", "-run", e.Run, pkg}
	cmd := exec.Command("go", args...)
	cmd.Dir = moddir
	cmd.Env = append(os.Environ(), "GOFLAGS=-mod=mod", "GOPROXY=off")
	var envs []string
	for k, v := range e.Env {
		envs = append(envs, k+"="+v)
	}
	if thorough {
		for k, v := range e.EnvThorough {
			envs = append(envs, k+"="+v)
		}
	}
	cmd.Env = append(cmd.Env, envs...)
	start := time.Now()
	out, err := cmd.CombinedOutput()
	tr := testRun{Cmd: fmt.Sprintf("cd %s && %s go %s", moddir, strings.Join(envs, " "), strings.Join(args, " ")), Failed: err != nil, Output: truncate(string(out), 12000), WallS: time.Since(start).Seconds()}
	for _, l := range strings.Split(string(out), "\n") {
		if strings.Contains(l, "REPLAY-CONFIRMED") || strings.Contains(l, "sequences of length") {
			tr.Summary += strings.TrimSpace(l) + "\n"
		}
	}
	return tr
}

var loopPrefixRe = regexp.MustCompile(`^loop[0-9.]+\.`)

var (
	familyMu   sync.Mutex
	familyRuns = map[string]testRun{}
)

func runReplayFamily(o *checkOpts, prog *Program, r *UnitResult, ob *Obligation) *replayResult {
	for _, e := range loadReplayIndex() {
		if e.Kind != "replay" || e.Obligations == "" {
			continue
		}
		re, err := regexp.Compile(e.Obligations)
		if err != nil || !re.MatchString(ob.Name) {
			continue
		}
		familyMu.Lock()
		tr, ok := familyRuns[e.Name]
		if !ok {
			tr = runReplayTest(o, e, false)
			familyRuns[e.Name] = tr
		}
		familyMu.Unlock()
		confirmed := tr.Failed && strings.Contains(tr.Output, "REPLAY-CONFIRMED")
		specific := false
		summary := tr.Summary
		for _, l := range strings.Split(tr.Output, "\n") {
			if strings.Contains(l, "REPLAY-CONFIRMED") && ob.Label != "" && (strings.Contains(l, "["+ob.Label+"]") || strings.Contains(l, "["+loopPrefixRe.ReplaceAllString(ob.Label, "")+"]")) {
				specific = true
				summary = strings.TrimSpace(l)
				break
			}
		}
		return &replayResult{Family: e.Name, Confirmed: confirmed, Specific: specific && confirmed, Scenario: summary, Output: tr.Output, Note: tr.Cmd}
	}
	return nil
}

type boundedResult struct {
	Name    string  `json:"name"`
	Bound   string  `json:"bound"`
	Claims  string  `json:"stands_in_for"`
	Passed  bool    `json:"passed"`
	WallS   float64 `json:"wall_s"`
	Summary string  `json:"summary"`
	Cmd     string  `json:"cmd"`
}

// runBounded runs the bounded stand-ins registered for the property. Failures are violations with a concrete witness.
func runBounded(o *checkOpts) ([]boundedResult, []violation) {
	var out []boundedResult
	var viols []violation
	for _, e := range loadReplayIndex() {
		if e.Kind != "bounded" || !hasTag(e.Properties, o.prop) {
			continue
		}
		tr := runReplayTest(o, e, o.tier == "thorough")
		br := boundedResult{Name: e.Name, Bound: e.Bound, Claims: e.Claims, Passed: !tr.Failed, WallS: tr.WallS, Summary: tr.Summary, Cmd: tr.Cmd}
		out = append(out, br)
		if tr.Failed {
			reason := "bounded stand-in found a concrete counterexample on the real code: " + firstLine(tr.Summary)
			if strings.Contains(tr.Output, "[setup failed]") || strings.Contains(tr.Output, "[build failed]") {
				// fails closed: a check that cannot be built or run has decided nothing
				reason = "bounded stand-in could not be built against this tree (no verdict): " + firstLine(tr.Output)
			}
			viols = append(viols, violation{Obligation: "bounded:" + e.Name, Reason: reason, Status: "witness", Detail: tr.Output, Confirmed: strings.Contains(tr.Output, "REPLAY-CONFIRMED")})
		}
	}
	return out, viols
}

func firstLine(s string) string {
	for _, l := range strings.Split(s, "\n") {
		if strings.Contains(l, "REPLAY-CONFIRMED") {
			return l
		}
	}
	return strings.SplitN(s, "\n", 2)[0]
}
