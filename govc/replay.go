package main

// Replay families: concrete scenarios driven against the real code through `go test -overlay`.

func runReplayFamily(o *checkOpts, prog *Program, r *UnitResult, ob *Obligation) *replayResult {
	return nil
}
