package main

// Statement execution.

import (
	"fmt"
	"go/ast"
	"go/token"
	"go/types"
	"sort"
	"strings"
)

func (x *Unit) block(st *State, list []ast.Stmt) *State {
	for _, s := range list {
		if st.dead() {
			return st
		}
		st = x.stmt(st, s)
	}
	return st
}

func (x *Unit) runActions(st *State, acts []*AnchorAction) {
	for _, a := range acts {
		x.usedActions[a] = true
		x.runAction(st, a)
	}
}

func (x *Unit) stmt(st *State, s ast.Stmt) *State {
	if acts := x.before[s]; len(acts) > 0 {
		x.runActions(st, acts)
	}
	st = x.stmt1(st, s, "")
	if acts := x.after[s]; len(acts) > 0 && !st.dead() {
		x.runActions(st, acts)
	}
	return st
}

func (x *Unit) stmt1(st *State, s ast.Stmt, label string) *State {
	switch s := s.(type) {
	case *ast.EmptyStmt:
		return st
	case *ast.BlockStmt:
		return x.block(st, s.List)
	case *ast.ExprStmt:
		if call, ok := ast.Unparen(s.X).(*ast.CallExpr); ok {
			x.call(st, call)
			return st
		}
		if u, ok := ast.Unparen(s.X).(*ast.UnaryExpr); ok && u.Op == token.ARROW {
			// blocking receive (e.g. <-ctx.Done()): an interference point in conc mode
			x.eval(st, u.X)
			if x.mode == "conc" {
				x.interfere(st, s, "channel receive")
			}
			return st
		}
		x.eval(st, s.X)
		return st
	case *ast.AssignStmt:
		return x.assignStmt(st, s)
	case *ast.IncDecStmt:
		v := x.eval(st, s.X)
		op := "+"
		if s.Tok == token.DEC {
			op = "-"
		}
		x.assignTo(st, s.X, TG("("+op+" "+v.S+" 1)", SInt, v.GoT))
		return st
	case *ast.DeclStmt:
		gd, ok := s.Decl.(*ast.GenDecl)
		if !ok {
			x.fail(s, "unsupported declaration")
		}
		if gd.Tok == token.TYPE || gd.Tok == token.CONST {
			return st
		}
		for _, sp := range gd.Specs {
			vs := sp.(*ast.ValueSpec)
			if len(vs.Values) == 0 {
				for _, n := range vs.Names {
					obj := x.info.Defs[n].(*types.Var)
					z := x.U.Zero(x.U.SortOf(obj.Type()))
					x.writeVar(st, obj, z)
				}
				continue
			}
			if len(vs.Values) == len(vs.Names) {
				for i, n := range vs.Names {
					if n.Name == "_" {
						x.eval(st, vs.Values[i])
						continue
					}
					obj := x.info.Defs[n].(*types.Var)
					v := x.conv(x.evalNilAware(st, vs.Values[i], obj.Type()), x.typeOf(vs.Values[i]), obj.Type())
					x.bindClosure(obj, vs.Values[i])
					x.writeVar(st, obj, v)
				}
				continue
			}
			x.fail(s, "unsupported var declaration form")
		}
		return st
	case *ast.IfStmt:
		if s.Init != nil {
			st = x.stmt(st, s.Init)
		}
		c := x.eval(st, s.Cond)
		thenSt := x.withCond(st, c)
		elseSt := x.withCond(st, Not(c))
		thenOut := x.block(thenSt, s.Body.List)
		var elseOut *State = elseSt
		if s.Else != nil {
			elseOut = x.stmt(elseSt, s.Else)
		}
		return x.merge(thenOut, elseOut)
	case *ast.ForStmt:
		return x.forStmt(st, s, label)
	case *ast.RangeStmt:
		return x.rangeStmt(st, s, label)
	case *ast.SwitchStmt:
		return x.switchStmt(st, s, label)
	case *ast.TypeSwitchStmt:
		return x.typeSwitchStmt(st, s, label)
	case *ast.LabeledStmt:
		return x.stmt1(st, s.Stmt, s.Label.Name)
	case *ast.ReturnStmt:
		return x.returnStmt(st, s)
	case *ast.BranchStmt:
		return x.branchStmt(st, s)
	case *ast.DeferStmt:
		return x.deferStmt(st, s)
	case *ast.GoStmt:
		// spawn: the goroutine body is its own verification unit; the spawner only records the event
		if fl, ok := s.Call.Fun.(*ast.FuncLit); ok {
			if u := x.P.LitUnits[fl]; u != nil {
				x.traceEvent(st, "go:"+u.Name, nil, nil)
				x.abstractions["go statement: goroutine body "+u.Name+" is a separate unit"] = true
				return st
			}
		}
		x.traceEvent(st, "go", nil, nil)
		x.abstractions["go statement: spawned call not executed by the spawner"] = true
		return st
	case *ast.SelectStmt:
		return x.selectStmt(st, s)
	case *ast.SendStmt:
		x.fail(s, "channel send")
	}
	x.fail(s, "unsupported statement %T", s)
	return st
}

func (x *Unit) bindClosure(obj *types.Var, rhs ast.Expr) {
	if fl, ok := ast.Unparen(rhs).(*ast.FuncLit); ok {
		x.closureBind[obj] = fl
	}
}

// ---------------------------------------------------------------------------
// assignment

func (x *Unit) assignStmt(st *State, s *ast.AssignStmt) *State {
	if s.Tok != token.ASSIGN && s.Tok != token.DEFINE {
		// op-assign
		if len(s.Lhs) != 1 {
			x.fail(s, "bad op-assign")
		}
		l := x.eval(st, s.Lhs[0])
		r := x.eval(st, s.Rhs[0])
		var v Term
		switch s.Tok {
		case token.ADD_ASSIGN:
			if l.Sort == SStr {
				f := x.U.Fun("str.concat", []*Sort{SStr, SStr}, SStr)
				v = TG("("+f+" "+l.S+" "+r.S+")", SStr, l.GoT)
			} else {
				v = TG("(+ "+l.S+" "+r.S+")", SInt, l.GoT)
			}
		case token.SUB_ASSIGN:
			v = TG("(- "+l.S+" "+r.S+")", SInt, l.GoT)
		case token.MUL_ASSIGN:
			v = TG("(* "+l.S+" "+r.S+")", SInt, l.GoT)
		default:
			x.fail(s, "unsupported assignment operator %s", s.Tok)
		}
		x.assignTo(st, s.Lhs[0], v)
		return st
	}
	// multi-value forms
	if len(s.Lhs) > 1 && len(s.Rhs) == 1 {
		var vals []Term
		var vtypes []types.Type
		switch r := ast.Unparen(s.Rhs[0]).(type) {
		case *ast.CallExpr:
			vals = x.call(st, r)
			if tup, ok := x.typeOf(r).(*types.Tuple); ok {
				for i := 0; i < tup.Len(); i++ {
					vtypes = append(vtypes, tup.At(i).Type())
				}
			}
		case *ast.IndexExpr:
			mt, ok := x.typeOf(r.X).Underlying().(*types.Map)
			if !ok {
				x.fail(s, "comma-ok on non-map index")
			}
			m := x.eval(st, r.X)
			k := x.conv(x.eval(st, r.Index), x.typeOf(r.Index), mt.Key())
			v, ok2 := x.mapLoad(st, mt, m, k)
			vals = []Term{v, ok2}
			vtypes = []types.Type{mt.Elem(), types.Typ[types.Bool]}
		case *ast.TypeAssertExpr:
			v, ok2 := x.typeAssert(st, r)
			vals = []Term{v, ok2}
			vtypes = []types.Type{x.typeOf(r.Type), types.Typ[types.Bool]}
		case *ast.UnaryExpr:
			if r.Op == token.ARROW {
				t := x.typeOf(r.X).Underlying().(*types.Chan).Elem()
				vals = []Term{x.freshVal("recv", x.U.SortOf(t), t), x.freshVal("recvok", SBool, nil)}
				vtypes = []types.Type{t, types.Typ[types.Bool]}
			} else {
				x.fail(s, "unsupported multi-assign rhs")
			}
		default:
			x.fail(s, "unsupported multi-assign rhs %T", r)
		}
		if len(vals) != len(s.Lhs) {
			x.fail(s, "assignment count mismatch: %d = %d", len(s.Lhs), len(vals))
		}
		for i, l := range s.Lhs {
			x.assignLhs(st, s, l, vals[i], vtypes[i])
		}
		return st
	}
	if len(s.Lhs) != len(s.Rhs) {
		x.fail(s, "assignment count mismatch")
	}
	// evaluate all rhs first (parallel assignment)
	vals := make([]Term, len(s.Rhs))
	for i, r := range s.Rhs {
		lt := x.lhsType(s, s.Lhs[i])
		vals[i] = x.evalNilAware(st, r, lt)
	}
	for i, l := range s.Lhs {
		if id, ok := l.(*ast.Ident); ok && s.Tok == token.DEFINE {
			if obj, ok := x.info.Defs[id].(*types.Var); ok {
				x.bindClosure(obj, s.Rhs[i])
			}
		} else if ok && s.Tok == token.ASSIGN {
			// `var f func(...)` followed by the one assignment `f = func(...) {... f(...) ...}`: the recursive-closure idiom
			if obj, ok := x.info.Uses[id].(*types.Var); ok && !x.isPkgLevel(obj) && x.assignedOnceNeverAddressed(obj) {
				x.bindClosure(obj, s.Rhs[i])
			}
		}
		x.assignLhs(st, s, l, vals[i], x.typeOf(s.Rhs[i]))
	}
	return st
}

func (x *Unit) lhsType(s *ast.AssignStmt, l ast.Expr) types.Type {
	if id, ok := l.(*ast.Ident); ok {
		if id.Name == "_" {
			return nil
		}
		if o := x.info.ObjectOf(id); o != nil {
			return o.Type()
		}
	}
	return x.typeOf(l)
}

func (x *Unit) assignLhs(st *State, s *ast.AssignStmt, l ast.Expr, v Term, vt types.Type) {
	if id, ok := l.(*ast.Ident); ok {
		if id.Name == "_" {
			return
		}
		obj, _ := x.info.ObjectOf(id).(*types.Var)
		if obj == nil {
			x.fail(l, "assignment to non-variable")
		}
		x.writeVar(st, obj, x.conv(v, vt, obj.Type()))
		return
	}
	x.assignTo(st, l, x.conv(v, vt, x.typeOf(l)))
}

// assignTo stores v into the location denoted by l.
func (x *Unit) assignTo(st *State, l ast.Expr, v Term) {
	switch l := ast.Unparen(l).(type) {
	case *ast.Ident:
		if l.Name == "_" {
			return
		}
		obj, _ := x.info.ObjectOf(l).(*types.Var)
		if obj == nil {
			x.fail(l, "assignment to non-variable")
		}
		x.writeVar(st, obj, v)
	case *ast.SelectorExpr:
		sel, ok := x.info.Selections[l]
		if !ok {
			if obj, ok := x.info.ObjectOf(l.Sel).(*types.Var); ok {
				x.writeVar(st, obj, v)
				return
			}
			x.fail(l, "unsupported assignment target")
		}
		if len(sel.Index()) != 1 {
			x.fail(l, "assignment to promoted field")
		}
		bt := x.typeOf(l.X)
		if p, ok := bt.Underlying().(*types.Pointer); ok {
			base := x.eval(st, l.X)
			x.derefCheck(st, base, l, "receiver of ."+l.Sel.Name)
			x.guardCheck(st, base, p.Elem(), l.Sel.Name, true, l)
			comp, _, _ := x.fieldComp(p.Elem(), l.Sel.Name)
			x.set(st, comp, Store(x.get(st, comp), base, v))
			return
		}
		// struct value: functional update, write back
		base := x.eval(st, l.X)
		if base.Sort.Kind != KStruct {
			x.fail(l, "field assignment on opaque struct")
		}
		x.assignTo(st, l.X, x.U.StructSet(base, l.Sel.Name, v))
	case *ast.IndexExpr:
		bt := x.typeOf(l.X)
		switch ut := bt.Underlying().(type) {
		case *types.Map:
			m := x.eval(st, l.X)
			if x.safetyOn() {
				x.oblige(st, "safety", x.safetyLabel("nil-map-write"), x.safetyTags(), Not(Eq(m, T("0", SInt))), "write to non-nil map", l)
			}
			x.guardCheckExpr(st, l.X, true)
			k := x.conv(x.eval(st, l.Index), x.typeOf(l.Index), ut.Key())
			x.mapStore(st, ut, m, k, v)
		case *types.Slice, *types.Array:
			sv := x.eval(st, l.X)
			i := x.eval(st, l.Index)
			x.boundsCheck(st, i, x.U.SliceLen(sv), l)
			ns := x.U.SliceMk(sv.Sort, x.U.SliceNil(sv), x.U.SliceLen(sv), Store(x.U.SliceArr(sv), i, v))
			ns.GoT = sv.GoT
			x.assignTo(st, l.X, ns)
		default:
			x.fail(l, "unsupported index assignment")
		}
	case *ast.StarExpr:
		pt := x.typeOf(l.X).Underlying().(*types.Pointer)
		p := x.eval(st, l.X)
		if v.Sort.Kind != KStruct {
			x.fail(l, "unsupported store through pointer")
		}
		x.derefCheck(st, p, l, "pointer")
		for _, f := range v.Sort.Fields {
			comp, _, _ := x.fieldComp(pt.Elem(), f.Name)
			x.set(st, comp, Store(x.get(st, comp), p, x.U.StructGet(v, f.Name)))
		}
	default:
		x.fail(l, "unsupported assignment target %T", l)
	}
}

// ---------------------------------------------------------------------------
// return / branch

func (x *Unit) returnStmt(st *State, s *ast.ReturnStmt) *State {
	fr := x.fr
	if len(s.Results) == 1 && len(fr.results) > 1 {
		call, ok := ast.Unparen(s.Results[0]).(*ast.CallExpr)
		if !ok {
			x.fail(s, "unsupported return form")
		}
		vals := x.call(st, call)
		tup := x.typeOf(call).(*types.Tuple)
		for i, v := range vals {
			x.setResult(st, fr, i, x.conv(v, tup.At(i).Type(), fr.resTypes[i]))
		}
	} else if len(s.Results) > 0 {
		vals := make([]Term, len(s.Results))
		for i, r := range s.Results {
			vals[i] = x.conv(x.evalNilAware(st, r, fr.resTypes[i]), x.typeOf(r), fr.resTypes[i])
		}
		for i, v := range vals {
			x.setResult(st, fr, i, v)
		}
	}
	if acts := x.after[s]; len(acts) > 0 && !st.dead() {
		// actions anchored after a call that sits inside this return statement: the results are evaluated, the function
		// has not returned yet
		x.runActions(st, acts)
	}
	if fr.unitTop && x.pass == 2 && !st.dead() {
		// vacuity guard: every return statement of the unit must be reachable under the preconditions and the assumed contracts
		x.retOrd++
		x.monitorsAtReturn(st, fmt.Sprintf("return#%d", x.retOrd), s)
		if c := x.FU.Contract; c != nil && c.Dead[fmt.Sprintf("return#%d", x.retOrd)] {
			// declared dead: the contracts of the callees make this return unreachable; check exactly that
			x.oblige(st, "dead", fmt.Sprintf("return#%d", x.retOrd), x.tagsOr(nil), False, "this return statement is unreachable under the callee contracts (declared dead)", s)
		} else {
		x.covers = append(x.covers, &Obligation{Name: fmt.Sprintf("%s.%s#cover[return#%d]", x.FU.Pkg.Name, x.FU.Name, x.retOrd), Kind: "cover", Label: fmt.Sprintf("return#%d", x.retOrd),
			PC: st.pc, Cond: False, NAssume: len(x.assumes), Src: "this return statement is reachable (must NOT be provable unreachable)", Unit: x.FU.Name, IsCover: true, Pos: x.P.pos(s)})
		}
	}
	fr.returns = append(fr.returns, st)
	return x.deadState()
}

func (x *Unit) deadState() *State {
	return &State{pc: False, vars: map[types.Object]Term{}, heap: map[string]Term{}}
}

func (x *Unit) setResult(st *State, fr *frame, i int, v Term) {
	obj := fr.results[i]
	nt := x.define("res", v)
	nt.Sort = fr.resSorts[i]
	nt.GoT = fr.resTypes[i]
	st.vars[obj] = nt
}

func (x *Unit) branchStmt(st *State, s *ast.BranchStmt) *State {
	fr := x.fr
	lab := ""
	if s.Label != nil {
		lab = s.Label.Name
	}
	switch s.Tok {
	case token.BREAK:
		// innermost loop or switch (by label if given)
		if lab == "" {
			// which is innermost: switch or loop? use enclosing order stack
			if n := len(fr.brkStack); n > 0 {
				top := fr.brkStack[n-1]
				if top.sw != nil {
					top.sw.breaks = append(top.sw.breaks, st)
				} else {
					top.lp.breaks = append(top.lp.breaks, st)
				}
				return x.deadState()
			}
		} else {
			for i := len(fr.brkStack) - 1; i >= 0; i-- {
				e := fr.brkStack[i]
				if e.lp != nil && e.lp.label == lab {
					e.lp.breaks = append(e.lp.breaks, st)
					return x.deadState()
				}
				if e.sw != nil && e.sw.label == lab {
					e.sw.breaks = append(e.sw.breaks, st)
					return x.deadState()
				}
			}
		}
		x.fail(s, "break outside loop/switch")
	case token.CONTINUE:
		for i := len(fr.brkStack) - 1; i >= 0; i-- {
			e := fr.brkStack[i]
			if e.lp != nil && (lab == "" || e.lp.label == lab) {
				e.lp.continues = append(e.lp.continues, st)
				return x.deadState()
			}
		}
		x.fail(s, "continue outside loop")
	case token.FALLTHROUGH:
		fr.fallthroughSt = st
		return x.deadState()
	}
	x.fail(s, "unsupported branch statement %s", s.Tok)
	return st
}

type brkEntry struct {
	lp *loopCtx
	sw *switchCtx
}

// ---------------------------------------------------------------------------
// switch

func (x *Unit) switchStmt(st *State, s *ast.SwitchStmt, label string) *State {
	if s.Init != nil {
		st = x.stmt(st, s.Init)
	}
	var tag Term
	var tagT types.Type
	if s.Tag != nil {
		tag = x.eval(st, s.Tag)
		tagT = x.typeOf(s.Tag)
	}
	sw := &switchCtx{label: label}
	x.fr.brkStack = append(x.fr.brkStack, brkEntry{sw: sw})
	pending := st.clone()
	var outs []*State
	var ft *State
	var defaultClause *ast.CaseClause
	for _, c := range s.Body.List {
		cc := c.(*ast.CaseClause)
		if cc.List == nil {
			defaultClause = cc
			if ft != nil {
				x.fail(cc, "fallthrough into default")
			}
			continue
		}
		var conds []Term
		for _, e := range cc.List {
			if s.Tag != nil {
				v := x.eval(pending, e)
				vt := x.typeOf(e)
				a, b := tag, v
				if a.Sort == SIface && b.Sort != SIface {
					b = x.U.Box(b, vt)
				} else if b.Sort == SIface && a.Sort != SIface {
					a = x.U.Box(a, tagT)
				}
				conds = append(conds, Eq(a, b))
			} else {
				conds = append(conds, x.eval(pending, e))
			}
		}
		c := Or(conds...)
		enter := x.withCond(pending, c)
		if ft != nil {
			enter = x.merge(enter, ft)
			ft = nil
		}
		pending = x.withCond(pending, Not(c))
		x.fr.fallthroughSt = nil
		out := x.block(enter, cc.Body)
		if x.fr.fallthroughSt != nil {
			ft = x.fr.fallthroughSt
			x.fr.fallthroughSt = nil
		}
		outs = append(outs, out)
	}
	if defaultClause != nil {
		enter := pending
		if ft != nil {
			enter = x.merge(enter, ft)
		}
		outs = append(outs, x.block(enter, defaultClause.Body))
	} else {
		outs = append(outs, pending)
		if ft != nil {
			outs = append(outs, ft)
		}
	}
	x.fr.brkStack = x.fr.brkStack[:len(x.fr.brkStack)-1]
	outs = append(outs, sw.breaks...)
	return x.merge(outs...)
}

func (x *Unit) typeSwitchStmt(st *State, s *ast.TypeSwitchStmt, label string) *State {
	if s.Init != nil {
		st = x.stmt(st, s.Init)
	}
	var subj ast.Expr
	var bindName *ast.Ident
	switch a := s.Assign.(type) {
	case *ast.ExprStmt:
		subj = a.X.(*ast.TypeAssertExpr).X
	case *ast.AssignStmt:
		subj = a.Rhs[0].(*ast.TypeAssertExpr).X
		bindName = a.Lhs[0].(*ast.Ident)
	}
	_ = bindName
	v := x.eval(st, subj)
	sw := &switchCtx{label: label}
	x.fr.brkStack = append(x.fr.brkStack, brkEntry{sw: sw})
	pending := st.clone()
	var outs []*State
	var def *ast.CaseClause
	for _, c := range s.Body.List {
		cc := c.(*ast.CaseClause)
		if cc.List == nil {
			def = cc
			continue
		}
		var conds []Term
		for _, e := range cc.List {
			if isNilIdent(x.info, e) {
				conds = append(conds, x.U.IsNilIface(v))
			} else {
				conds = append(conds, x.U.HasType(v, x.typeOf(e)))
			}
		}
		cnd := Or(conds...)
		enter := x.withCond(pending, cnd)
		pending = x.withCond(pending, Not(cnd))
		if obj, ok := x.info.Implicits[cc].(*types.Var); ok {
			if len(cc.List) == 1 && !isNilIdent(x.info, cc.List[0]) {
				t := x.typeOf(cc.List[0])
				uv := x.U.Unbox(v, t)
				uv.GoT = t
				x.writeVar(enter, obj, uv)
			} else {
				x.writeVar(enter, obj, v)
			}
		}
		outs = append(outs, x.block(enter, cc.Body))
	}
	if def != nil {
		if obj, ok := x.info.Implicits[def].(*types.Var); ok {
			x.writeVar(pending, obj, v)
		}
		outs = append(outs, x.block(pending, def.Body))
	} else {
		outs = append(outs, pending)
	}
	x.fr.brkStack = x.fr.brkStack[:len(x.fr.brkStack)-1]
	outs = append(outs, sw.breaks...)
	return x.merge(outs...)
}

func (x *Unit) selectStmt(st *State, s *ast.SelectStmt) *State {
	// nondeterministic choice among the clauses; communication values are unconstrained
	var outs []*State
	rest := st.clone()
	for i, c := range s.Body.List {
		cc := c.(*ast.CommClause)
		var enter *State
		if i == len(s.Body.List)-1 {
			enter = rest
		} else {
			ch := x.freshVal("select", SBool, nil)
			enter = x.withCond(rest, ch)
			rest = x.withCond(rest, Not(ch))
		}
		if cc.Comm != nil {
			switch cm := cc.Comm.(type) {
			case *ast.ExprStmt:
				if u, ok := ast.Unparen(cm.X).(*ast.UnaryExpr); ok && u.Op == token.ARROW {
					x.eval(enter, u.X)
				} else {
					x.fail(cc, "unsupported select communication")
				}
			case *ast.AssignStmt:
				enter = x.assignStmt(enter, cm)
			default:
				x.fail(cc, "unsupported select communication")
			}
		}
		outs = append(outs, x.block(enter, cc.Body))
	}
	x.abstractions["select: clause chosen nondeterministically"] = true
	return x.merge(outs...)
}

// ---------------------------------------------------------------------------
// loops

type modSet struct {
	vars   map[types.Object]bool
	comps  map[string]bool
	all    bool
	calls  bool
	ghosts map[string]bool
}

func (x *Unit) loopSpec(s ast.Stmt) (*LoopSpec, int) {
	ord := x.loopOrd[s]
	if len(x.inlineStack) > 0 {
		return nil, ord // loop of an inlined callee without contract: no invariants (its effects are havocked)
	}
	if x.FU.Contract != nil {
		id := fmt.Sprint(ord)
		if ls, ok := x.FU.Contract.Loops[id]; ok {
			x.usedLoops[id] = true
			return ls, ord
		}
	}
	return nil, ord
}

func (x *Unit) checkInvariants(st *State, ls *LoopSpec, kind string, node ast.Node, extra map[string]Term) {
	if ls == nil {
		return
	}
	for _, inv := range ls.Invariants {
		c := x.specBool(st, inv, extra)
		x.obligeBy(inv.By, st, kind, fmt.Sprintf("loop%s.%s", ls.ID, inv.Label), x.tagsOr(inv.Tags), c, inv.Src, node)
	}
}

func (x *Unit) assumeInvariants(st *State, ls *LoopSpec, extra map[string]Term) {
	if ls == nil {
		return
	}
	for _, inv := range ls.Invariants {
		x.assumeAs(st, inv.Label, x.specBool(st, inv, extra))
	}
}

func (x *Unit) tagsOr(tags []string) []string {
	if len(tags) > 0 {
		return tags
	}
	// inherit: union of tags of the function's posts
	if x.FU.Contract == nil {
		return nil
	}
	seen := map[string]bool{}
	var out []string
	for _, c := range x.FU.Contract.Ensures {
		for _, t := range c.Tags {
			if !seen[t] {
				seen[t] = true
				out = append(out, t)
			}
		}
	}
	for _, c := range x.FU.Contract.Panics {
		for _, t := range c.Tags {
			if !seen[t] {
				seen[t] = true
				out = append(out, t)
			}
		}
	}
	return out
}

func (x *Unit) havocForLoop(st *State, ms *modSet, loop ast.Stmt) {
	// loops in the body of a function literal that is called through the variable it is bound to: map writes through a
	// variable the loop never assigns change that one map object only (see mapWriteTargets)
	if loop != nil && !x.inLoopRefine {
		active := false
		for _, n := range x.litActive {
			if n > 0 {
				active = true
			}
		}
		if _, isBlock := loop.(*ast.BlockStmt); active && !isBlock {
			targets := x.mapWriteTargets(st, loop, ms)
			if len(targets) > 0 {
				before := map[string]Term{}
				for c := range targets {
					before[c] = x.get(st, c)
				}
				x.inLoopRefine = true
				x.havocForLoop(st, ms, loop)
				x.inLoopRefine = false
				for c, ref := range targets {
					x.set(st, c, Store(before[c], ref, Select(x.get(st, c), ref)))
				}
				return
			}
		}
	}
	for v := range ms.vars {
		if _, ok := st.vars[v]; ok {
			vv := v.(*types.Var)
			st.vars[v] = x.freshVal(v.Name(), x.U.SortOf(vv.Type()), vv.Type())
		}
	}
	if ms.all {
		x.havocAll(st)
	} else {
		if ms.comps["alloc"] {
			x.regComp("alloc", SInt)
			old := x.get(st, "alloc")
			x.havocComp(st, "alloc")
			x.assumes = append(x.assumes, "(>= "+x.get(st, "alloc").S+" "+old.S+")")
		}
		// the lock state is changed by callees only in a balanced way (the same assumption as at every call site, where these
		// components are not havocked); it is havocked here only when the loop body itself acquires or releases a lock
		direct := loopLocksDirectly(loop)
		for c := range ms.comps {
			if c == "alloc" {
				continue
			}
			if !direct && (c == "$nlocks" || strings.HasPrefix(c, "L:")) {
				continue
			}
			if _, ok := x.compSorts[c]; ok {
				x.havocComp(st, c)
			}
		}
	}
	if ms.calls {
		// traces only grow: old entries are kept, times are strictly increasing and below the clock
		x.regComp("clk", SInt)
		oldClk := x.get(st, "clk")
		x.havocComp(st, "clk")
		newClk := x.get(st, "clk")
		x.assumes = append(x.assumes, "(>= "+newClk.S+" "+oldClk.S+")")
		var keys []string
		for c := range x.compSorts {
			if strings.HasPrefix(c, "TL:") && (x.pass < 2 || x.loopKeys[loop][c[3:]]) {
				keys = append(keys, c[3:])
			}
		}
		sort.Strings(keys)
		for _, k := range keys {
			oldN := x.get(st, "TL:"+k)
			x.havocComp(st, "TL:"+k)
			newN := x.get(st, "TL:"+k)
			x.assumes = append(x.assumes, "(>= "+newN.S+" "+oldN.S+")")
			for c := range x.compSorts {
				if strings.HasPrefix(c, "TA:"+k+":") || strings.HasPrefix(c, "TR:"+k+":") || c == "TT:"+k || c == "TP:"+k {
					oldA := x.get(st, c)
					x.havocComp(st, c)
					newA := x.get(st, c)
					x.assumes = append(x.assumes, fmt.Sprintf("(forall ((bv!i Int)) (! (=> (< bv!i %s) (= (select %s bv!i) (select %s bv!i))) :pattern ((select %s bv!i))))", oldN.S, newA.S, oldA.S, newA.S))
				}
			}
			if _, ok := x.compSorts["TT:"+k]; ok {
				tt := x.get(st, "TT:"+k)
				x.assumes = append(x.assumes, fmt.Sprintf("(forall ((bv!i Int)) (! (=> (and (<= %s bv!i) (< bv!i %s)) (and (<= %s (select %s bv!i)) (< (select %s bv!i) %s))) :pattern ((select %s bv!i))))", oldN.S, newN.S, oldClk.S, tt.S, tt.S, newClk.S, tt.S))
				x.assumes = append(x.assumes, fmt.Sprintf("(forall ((bv!i Int) (bv!j Int)) (! (=> (and (<= 0 bv!i) (< bv!i bv!j) (< bv!j %s)) (< (select %s bv!i) (select %s bv!j))) :pattern ((select %s bv!i) (select %s bv!j))))", newN.S, tt.S, tt.S, tt.S, tt.S))
			}
		}
	}
	for g := range ms.ghosts {
		x.havocComp(st, "gh:"+g)
	}
}

func (x *Unit) forStmt(st *State, s *ast.ForStmt, label string) *State {
	if s.Init != nil {
		st = x.stmt(st, s.Init)
	}
	ls, _ := x.loopSpec(s)
	savedPos := x.curScopePos
	x.curScopePos = s.Body.Lbrace
	defer func() { x.curScopePos = savedPos }()
	ms := x.modsOfLoop(s.Body, s.Post, s.Cond)
	x.checkInvariants(st, ls, "inv.entry", s, nil)
	h := st.clone()
	x.havocForLoop(h, ms, s)
	x.assumeInvariants(h, ls, nil)
	var variant Term
	if ls != nil && ls.Decreases != nil {
		variant = x.define("variant", x.specTerm(h, ls.Decreases, nil))
	}
	c := True
	if s.Cond != nil {
		c = x.eval(h, s.Cond)
	}
	body := x.withCond(h, c)
	exit := x.withCond(h, Not(c))
	lp := &loopCtx{label: label}
	x.fr.brkStack = append(x.fr.brkStack, brkEntry{lp: lp})
	x.loopStmtStack = append(x.loopStmtStack, s)
	out := x.block(body, s.Body.List)
	x.fr.brkStack = x.fr.brkStack[:len(x.fr.brkStack)-1]
	end := x.merge(append([]*State{out}, lp.continues...)...)
	if !end.dead() {
		if acts := x.loopEnd[s]; len(acts) > 0 {
			x.runActions(end, acts)
		}
		if s.Post != nil {
			end = x.stmt(end, s.Post)
		}
		x.checkInvariants(end, ls, "inv.preserve", s, nil)
		if ls != nil && ls.Decreases != nil {
			nv := x.specTerm(end, ls.Decreases, nil)
			x.oblige(end, "decreases", fmt.Sprintf("loop%s", ls.ID), x.tagsOr(ls.Decreases.Tags), T("(and (>= "+variant.S+" 0) (< "+nv.S+" "+variant.S+"))", SBool), ls.Decreases.Src, s)
		}
	}
	x.loopStmtStack = x.loopStmtStack[:len(x.loopStmtStack)-1]
	return x.merge(append([]*State{exit}, lp.breaks...)...)
}

func (x *Unit) rangeStmt(st *State, s *ast.RangeStmt, label string) *State {
	rt := x.typeOf(s.X)
	ls, _ := x.loopSpec(s)
	savedPos := x.curScopePos
	x.curScopePos = s.Body.Lbrace
	defer func() { x.curScopePos = savedPos }()
	ms := x.modsOfLoop(s.Body)
	var keyObj, valObj *types.Var
	bindObj := func(e ast.Expr) *types.Var {
		if e == nil {
			return nil
		}
		id, ok := e.(*ast.Ident)
		if !ok {
			x.fail(e, "unsupported range variable")
		}
		if id.Name == "_" {
			return nil
		}
		o, _ := x.info.ObjectOf(id).(*types.Var)
		return o
	}
	keyObj, valObj = bindObj(s.Key), bindObj(s.Value)
	switch ut := rt.Underlying().(type) {
	case *types.Slice, *types.Array, *types.Basic:
		var n Term
		var sl Term
		isInt := false
		if b, ok := ut.(*types.Basic); ok {
			if b.Info()&types.IsInteger == 0 {
				x.fail(s, "range over %s", rt)
			}
			n = x.define("rangeN", x.eval(st, s.X))
			isInt = true
		} else {
			sl = x.define("rangeS", x.eval(st, s.X))
			n = x.U.SliceLen(sl)
		}
		extra0 := map[string]Term{"idx": T("0", SInt)}
		if keyObj != nil {
			extra0[keyObj.Name()] = T("0", SInt)
		}
		x.checkInvariants(st, ls, "inv.entry", s, extra0)
		h := st.clone()
		x.havocForLoop(h, ms, s)
		idx := x.freshVal("idx", SInt, types.Typ[types.Int])
		x.assume(h, T("(and (<= 0 "+idx.S+") (<= "+idx.S+" "+n.S+"))", SBool))
		extra := map[string]Term{"idx": idx}
		if keyObj != nil {
			extra[keyObj.Name()] = idx
		}
		x.assumeInvariants(h, ls, extra)
		body := x.withCond(h, T("(< "+idx.S+" "+n.S+")", SBool))
		exit := x.withCond(h, T("(>= "+idx.S+" "+n.S+")", SBool))
		if keyObj != nil {
			x.writeVar(body, keyObj, idx)
			// after normal exit the key var is out of scope (Go 1.22 per-iteration semantics)
		}
		if valObj != nil && !isInt {
			ev := x.U.SliceIndex(sl, idx)
			ev.GoT = valObj.Type()
			if ev.Sort.Kind == KSlice {
				ev = x.define("rv", ev)
				x.typeInv(ev)
			}
			x.writeVar(body, valObj, ev)
		}
		lp := &loopCtx{label: label}
		x.fr.brkStack = append(x.fr.brkStack, brkEntry{lp: lp})
		x.idxStack = append(x.idxStack, idx)
		x.loopStmtStack = append(x.loopStmtStack, s)
		out := x.block(body, s.Body.List)
		x.loopStmtStack = x.loopStmtStack[:len(x.loopStmtStack)-1]
		x.idxStack = x.idxStack[:len(x.idxStack)-1]
		x.fr.brkStack = x.fr.brkStack[:len(x.fr.brkStack)-1]
		end := x.merge(append([]*State{out}, lp.continues...)...)
		if !end.dead() {
			if acts := x.loopEnd[s]; len(acts) > 0 {
				x.idxStack = append(x.idxStack, idx)
				x.runActions(end, acts)
				x.idxStack = x.idxStack[:len(x.idxStack)-1]
			}
			nidx := T("(+ "+idx.S+" 1)", SInt)
			extra2 := map[string]Term{"idx": nidx}
			if keyObj != nil {
				extra2[keyObj.Name()] = nidx
			}
			x.checkInvariants(end, ls, "inv.preserve", s, extra2)
		}
		// expose final idx to code after the loop via spec name lastidx (not needed by Go code)
		x.lastIdx[s] = idx
		return x.merge(append([]*State{exit}, lp.breaks...)...)
	case *types.Map:
		m := x.define("rangeM", x.eval(st, s.X))
		dom, val, _, ks, vs := x.mapComps(ut)
		seenSort := x.U.arraySort(ks, SBool)
		seen0 := T("((as const (Array "+ks.Name+" Bool)) false)", seenSort)
		x.checkInvariants(st, ls, "inv.entry", s, map[string]Term{"seen": seen0})
		h := st.clone()
		x.havocForLoop(h, ms, s)
		seen := x.freshVal("seen", seenSort, nil)
		domNow := x.define("rdom", Select(x.get(h, dom), m))
		// seen ⊆ dom  (inductive by construction: the body may not change dom of the ranged map)
		bv := "bv!k"
		x.assume(h, T(fmt.Sprintf("(forall ((%s %s)) (! (=> (select %s %s) (select %s %s)) :pattern ((select %s %s))))", bv, ks.Name, seen.S, bv, domNow.S, bv, seen.S, bv), SBool))
		x.assume(h, Not(Eq(m, T("0", SInt)))) // ranging over a nil map: zero iterations (handled via exit below)
		extra := map[string]Term{"seen": seen}
		x.assumeInvariants(h, ls, extra)
		k := x.freshVal("rk", ks, ut.Key())
		body := x.withCond(h, And(Select(domNow, k), Not(Select(seen, k))))
		exitC := T(fmt.Sprintf("(forall ((%s %s)) (! (=> (select %s %s) (select %s %s)) :pattern ((select %s %s)) :pattern ((select %s %s))))", bv, ks.Name, domNow.S, bv, seen.S, bv, domNow.S, bv, seen.S, bv), SBool)
		exit := x.withCond(h, exitC)
		// nil map: straight to exit with the pre-loop state
		nilExit := x.withCond(st, Eq(m, T("0", SInt)))
		if keyObj != nil {
			x.writeVar(body, keyObj, k)
		}
		if valObj != nil {
			ev := Select(Select(x.get(body, val), m), k)
			ev.Sort = vs
			ev.GoT = ut.Elem()
			ev = x.define("rv", ev)
			ev.Sort = vs
			x.typeInv(ev)
			x.writeVar(body, valObj, ev)
		}
		lp := &loopCtx{label: label}
		x.fr.brkStack = append(x.fr.brkStack, brkEntry{lp: lp})
		x.seenStack = append(x.seenStack, seen)
		x.rkStack = append(x.rkStack, k)
		x.loopStmtStack = append(x.loopStmtStack, s)
		out := x.block(body, s.Body.List)
		x.loopStmtStack = x.loopStmtStack[:len(x.loopStmtStack)-1]
		x.fr.brkStack = x.fr.brkStack[:len(x.fr.brkStack)-1]
		end := x.merge(append([]*State{out}, lp.continues...)...)
		if !end.dead() {
			if acts := x.loopEnd[s]; len(acts) > 0 {
				x.runActions(end, acts)
			}
			// the body must not insert into / delete from the ranged map
			x.oblige(end, "maprange", fmt.Sprintf("loop%d.dom_unchanged", x.loopOrd[s]), x.tagsOr(nil), Eq(Select(x.get(end, dom), m), domNow), "body does not add or remove keys of the ranged map", s)
			nseen := Store(seen, k, True)
			x.checkInvariants(end, ls, "inv.preserve", s, map[string]Term{"seen": nseen})
		}
		x.seenStack = x.seenStack[:len(x.seenStack)-1]
		x.rkStack = x.rkStack[:len(x.rkStack)-1]
		return x.merge(append([]*State{exit, nilExit}, lp.breaks...)...)
	}
	x.fail(s, "unsupported range over %s", rt)
	return st
}

// modsOf computes the syntactic modification set of loop bodies.
func (x *Unit) modsOfLoop(nodes ...ast.Node) *modSet {
	saved := x.modsTop
	x.modsTop = true
	defer func() { x.modsTop = saved }()
	return x.modsOf(nodes...)
}

func (x *Unit) modsOf(nodes ...ast.Node) *modSet {
	ms := &modSet{vars: map[types.Object]bool{}, comps: map[string]bool{}, ghosts: map[string]bool{}}
	var visitLhs func(e ast.Expr)
	visitLhs = func(e ast.Expr) {
		switch l := ast.Unparen(e).(type) {
		case *ast.Ident:
			if o := x.info.ObjectOf(l); o != nil {
				if v, ok := o.(*types.Var); ok {
					if x.isPkgLevel(v) {
						ms.comps[x.globalComp(v)] = true
					} else {
						ms.vars[o] = true
					}
				}
			}
		case *ast.SelectorExpr:
			bt := x.typeOf(l.X)
			if bt == nil {
				return
			}
			if p, ok := bt.Underlying().(*types.Pointer); ok {
				if _, ok := p.Elem().Underlying().(*types.Struct); ok {
					comp, _, _ := x.fieldComp(p.Elem(), l.Sel.Name)
					ms.comps[comp] = true
				}
				return
			}
			visitLhs(l.X)
		case *ast.IndexExpr:
			bt := x.typeOf(l.X)
			if mt, ok := bt.Underlying().(*types.Map); ok {
				d, v, c, _, _ := x.mapComps(mt)
				ms.comps[d], ms.comps[v], ms.comps[c] = true, true, true
				return
			}
			visitLhs(l.X)
		case *ast.StarExpr:
			ms.all = true
		}
	}
	var walk func(n ast.Node) bool
	walk = func(n ast.Node) bool {
		switch n := n.(type) {
		case *ast.AssignStmt:
			for _, l := range n.Lhs {
				visitLhs(l)
			}
			if len(n.Lhs) == len(n.Rhs) {
				for i, r := range n.Rhs {
					if fl, ok := ast.Unparen(r).(*ast.FuncLit); ok {
						if id, ok := n.Lhs[i].(*ast.Ident); ok {
							if v, ok := x.info.ObjectOf(id).(*types.Var); ok {
								if _, have := x.closureBind[v]; !have {
									x.closureBind[v] = fl
								}
							}
						}
					}
				}
			}
		case *ast.IncDecStmt:
			visitLhs(n.X)
		case *ast.RangeStmt:
			if n.Tok == token.ASSIGN {
				if n.Key != nil {
					visitLhs(n.Key)
				}
				if n.Value != nil {
					visitLhs(n.Value)
				}
			}
		case *ast.CompositeLit:
			// &T{...} allocation writes field arrays of T
			t := x.typeOf(n)
			if t != nil {
				if st, ok := t.Underlying().(*types.Struct); ok {
					for i := 0; i < st.NumFields(); i++ {
						if !isSyncType(st.Field(i).Type()) {
							comp, _, _ := x.fieldComp(t, st.Field(i).Name())
							ms.comps[comp] = true
						}
					}
				}
				if mt, ok := t.Underlying().(*types.Map); ok {
					d, v, c, _, _ := x.mapComps(mt)
					ms.comps[d], ms.comps[v], ms.comps[c] = true, true, true
				}
			}
			ms.comps["alloc"] = true
		case *ast.UnaryExpr:
			if n.Op == token.AND {
				if id, ok := ast.Unparen(n.X).(*ast.Ident); ok {
					if v, ok := x.info.ObjectOf(id).(*types.Var); ok {
						if su, ok := v.Type().Underlying().(*types.Struct); ok && x.U.SortOf(v.Type()).Kind == KStruct {
							for j := 0; j < su.NumFields(); j++ {
								comp, _, _ := x.fieldComp(v.Type(), su.Field(j).Name())
								ms.comps[comp] = true
							}
							ms.comps["alloc"] = true
						}
					}
				}
			}
		case *ast.FuncLit:
			ms.comps["alloc"] = true
		case *ast.CallExpr:
			x.callMods(n, ms)
		case *ast.DeferStmt:
			if x.modsTop {
				x.fail(n, "defer inside loop")
			}
		}
		if acts, ok := x.before[n]; ok {
			for _, a := range acts {
				if a.Kind == "ghost" {
					ms.ghosts[a.Var] = true
				}
			}
		}
		if acts, ok := x.after[n]; ok {
			for _, a := range acts {
				if a.Kind == "ghost" {
					ms.ghosts[a.Var] = true
				}
			}
		}
		if acts, ok := x.loopEnd[n]; ok {
			for _, a := range acts {
				if a.Kind == "ghost" {
					ms.ghosts[a.Var] = true
				}
			}
		}
		return true
	}
	for _, n := range nodes {
		if n == nil || isNilNode(n) {
			continue
		}
		ast.Inspect(n, walk)
	}
	return ms
}

func isNilNode(n ast.Node) bool {
	switch v := n.(type) {
	case *ast.BlockStmt:
		return v == nil
	case ast.Stmt:
		return v == nil
	case ast.Expr:
		return v == nil
	}
	return false
}

// loopLocksDirectly: the loop body (outside function literals) calls Lock/Unlock/RLock/RUnlock itself.
func loopLocksDirectly(loop ast.Stmt) bool {
	found := false
	ast.Inspect(loop, func(n ast.Node) bool {
		if _, ok := n.(*ast.FuncLit); ok {
			return false
		}
		if c, ok := n.(*ast.CallExpr); ok {
			if sel, ok := c.Fun.(*ast.SelectorExpr); ok {
				switch sel.Sel.Name {
				case "Lock", "Unlock", "RLock", "RUnlock":
					found = true
				}
			}
		}
		return true
	})
	return found
}

// assignedOnceNeverAddressed: the local variable is assigned by exactly one statement of the enclosing declaration, is declared
// without a value, and its address is never taken - so every call through it after that statement calls that one value.
func (x *Unit) assignedOnceNeverAddressed(obj *types.Var) bool {
	if x.FU == nil || x.FU.Decl == nil || x.FU.Decl.Body == nil {
		return false
	}
	n, bad := 0, false
	ast.Inspect(x.FU.Decl.Body, func(nd ast.Node) bool {
		switch nd := nd.(type) {
		case *ast.AssignStmt:
			for _, l := range nd.Lhs {
				if id, ok := ast.Unparen(l).(*ast.Ident); ok && x.info.ObjectOf(id) == obj {
					n++
				}
			}
		case *ast.ValueSpec:
			for i, nm := range nd.Names {
				if x.info.Defs[nm] == obj && i < len(nd.Values) {
					bad = true
				}
			}
		case *ast.UnaryExpr:
			if nd.Op == token.AND {
				if id, ok := ast.Unparen(nd.X).(*ast.Ident); ok && x.info.ObjectOf(id) == obj {
					bad = true
				}
			}
		case *ast.IncDecStmt, *ast.RangeStmt:
			_ = nd
		}
		return true
	})
	return n == 1 && !bad
}
