#!/bin/sh
# usage: ./replay.sh <replay json>  -- prints the recorded violation; re-runs its replay family test if one is recorded
cd "$(dirname "$0")"
python3 - "$1" <<'PY'
import json,sys,subprocess
r=json.load(open(sys.argv[1]))
print("obligation:", r.get("obligation")); print("reason:", r.get("reason")); print("clause:", r.get("clause"), "at", r.get("at"))
rp=r.get("replay")
if rp and rp.get("cmd"):
    print("re-running:", rp["cmd"]); sys.exit(subprocess.call(rp["cmd"], shell=True))
print(r.get("solver_output","")[:4000])
PY
