package godi

// Bounded stand-in for the concurrent clause of C02 ("however many goroutines resolve concurrently"): per-function contracts
// with a monitor rule do not decide atomicity across the two critical sections of the scoped branch of scope.resolve
// (cache miss ... cache fill), so ONE schedule is forced here: two goroutines are both inside the constructor of one scoped
// service of one scope before either returns.

import (
	"context"
	"sync"
	"sync/atomic"
	"testing"
	"time"
)

type cbSession struct{ id int32 }

func TestBounded_ConcurrentScopedResolution(t *testing.T) {
	var entered, made int32
	gate := make(chan struct{})
	c := NewCollection()
	if err := c.AddScoped(func() *cbSession {
		if atomic.AddInt32(&entered, 1) == 2 {
			close(gate)
		}
		select {
		case <-gate: // the other goroutine is inside the constructor too
		case <-time.After(500 * time.Millisecond): // construction is serialised: nobody else will come
		}
		return &cbSession{id: atomic.AddInt32(&made, 1)}
	}); err != nil {
		t.Fatal(err)
	}
	p, err := c.Build()
	if err != nil {
		t.Fatal(err)
	}
	defer p.Close()
	sc, err := p.CreateScope(context.Background())
	if err != nil {
		t.Fatal(err)
	}
	defer sc.Close()
	atomic.StoreInt32(&entered, 0) // the root scope does not construct scoped services at Build
	var wg sync.WaitGroup
	got := make([]*cbSession, 2)
	for i := range got {
		wg.Add(1)
		go func(i int) {
			defer wg.Done()
			got[i], _ = Resolve[*cbSession](sc)
		}(i)
	}
	wg.Wait()
	third, _ := Resolve[*cbSession](sc)
	if got[0] == nil || got[1] == nil || third == nil {
		t.Fatalf("resolution failed: %v %v %v", got[0], got[1], third)
	}
	if got[0] != got[1] || atomic.LoadInt32(&made) != 1 {
		t.Errorf("REPLAY-CONFIRMED scope.resolve[scoped branch, two goroutines]: one scope ended up with %d instances of a scoped service (instances #%d and #%d handed out, #%d cached)", atomic.LoadInt32(&made), got[0].id, got[1].id, third.id)
	}
}
