package godi

// Replay family "lifecycle/history": concrete histories driven against the real provider / scope code.
// Injected with `go test -overlay` (nothing is written into /repo). A test FAILS (printing REPLAY-CONFIRMED)
// when the real code exhibits the violation named by the obligation it replays.

import (
	"bytes"
	"context"
	"errors"
	"fmt"
	"runtime"
	"sync"
	"sync/atomic"
	"testing"
	"time"
)

type rpDisp struct {
	name   string
	log    *[]string
	closed int32
	fail   bool
}

func (d *rpDisp) Close() error {
	atomic.AddInt32(&d.closed, 1)
	if d.log != nil {
		*d.log = append(*d.log, "close:"+d.name)
	}
	if d.fail {
		return errors.New("close failed: " + d.name)
	}
	return nil
}

type rpA struct{ *rpDisp }
type rpB struct{ *rpDisp }
type rpC struct{ *rpDisp }

func rpNoPanic(t *testing.T, what string, f func()) {
	t.Helper()
	defer func() {
		if r := recover(); r != nil {
			t.Errorf("REPLAY-CONFIRMED %s: panic escaped: %v", what, r)
		}
	}()
	f()
}

// scope.setInstance#safety[nil-map-write]: a scoped constructor that closes its own scope (the sequential
// form of a Close overlapping an in-flight resolution).
func TestReplay_SetInstanceAfterClose(t *testing.T) {
	c := NewCollection()
	var sc Scope
	c.AddScoped(func() *rpA {
		sc.Close()
		return &rpA{&rpDisp{name: "a"}}
	})
	p, err := c.Build()
	if err != nil {
		t.Fatal(err)
	}
	defer p.Close()
	sc, err = p.CreateScope(context.Background())
	if err != nil {
		t.Fatal(err)
	}
	rpNoPanic(t, "scope.setInstance#safety[nil-map-write]", func() {
		_, err := Resolve[*rpA](sc)
		_ = err
	})
}

// provider.CreateScope#safety[nil-map-write]: a scope initializer that closes the provider while the scope is being created.
func TestReplay_ProviderCreateScopeOverlapsClose(t *testing.T) {
	c := NewCollection()
	var p Provider
	arm := false
	c.AddScoped(func() {
		if arm {
			p.Close()
		}
	})
	var err error
	p, err = c.Build()
	if err != nil {
		t.Fatal(err)
	}
	arm = true
	rpNoPanic(t, "provider.CreateScope#safety[nil-map-write]", func() {
		s, err := p.CreateScope(context.Background())
		if err == nil && s != nil {
			if _, gerr := s.Get(scopeType); gerr == nil {
				// a scope returned by a closed provider must itself be closed
				if _, e2 := s.CreateScope(context.Background()); e2 == nil {
					t.Errorf("REPLAY-CONFIRMED provider.CreateScope: returned a live scope although the provider was closed meanwhile")
				}
			}
		}
	})
}

// scope.CreateScope#safety[nil-map-write]: initializer closes the parent scope while the child is being created.
func TestReplay_ScopeCreateScopeOverlapsClose(t *testing.T) {
	c := NewCollection()
	var parent Scope
	arm := false
	c.AddScoped(func() {
		if arm {
			parent.Close()
		}
	})
	p, err := c.Build()
	if err != nil {
		t.Fatal(err)
	}
	defer p.Close()
	parent, err = p.CreateScope(context.Background())
	if err != nil {
		t.Fatal(err)
	}
	arm = true
	rpNoPanic(t, "scope.CreateScope#safety[nil-map-write]", func() {
		_, _ = parent.CreateScope(context.Background())
	})
}

// newScope#post[failed_creation_is_cleaned_up] / CreateScope#post[failure_leaves_nothing]:
// an initializer fails after an earlier one created a disposable instance.
func TestReplay_FailedScopeCreationLeavesNothing(t *testing.T) {
	for _, child := range []bool{false, true} {
		c := NewCollection()
		var made []*rpDisp
		arm := false
		c.AddScoped(func() *rpA {
			d := &rpDisp{name: "a"}
			made = append(made, d)
			return &rpA{d}
		})
		c.AddScoped(func(a *rpA) {}) // initializer 1: creates the disposable *rpA in the new scope
		c.AddScoped(func() error {
			if arm {
				return errors.New("initializer failed")
			}
			return nil
		})
		p, err := c.Build()
		if err != nil {
			t.Fatal(err)
		}
		var parent Provider = p
		if child {
			parent, err = p.CreateScope(context.Background())
			if err != nil {
				t.Fatal(err)
			}
		}
		made = nil
		arm = true
		var derived context.Context
		ctx := rpCtxSpy{Context: context.Background(), onValue: nil}
		_ = derived
		s, err := parent.CreateScope(ctx)
		if err == nil {
			s.Close()
			p.Close()
			continue // initializer order differs: nothing to check
		}
		for _, d := range made {
			if atomic.LoadInt32(&d.closed) != 1 {
				t.Errorf("REPLAY-CONFIRMED newScope#post[failed_creation_is_cleaned_up] (child=%v): instance created before the failing initializer was closed %d times, want 1", child, d.closed)
			}
		}
		p.Close()
		for _, d := range made {
			if atomic.LoadInt32(&d.closed) != 1 {
				t.Errorf("REPLAY-CONFIRMED newScope#post[failed_creation_is_cleaned_up] (child=%v): after provider.Close the instance was closed %d times, want 1", child, d.closed)
			}
		}
	}
}

type rpCtxSpy struct {
	context.Context
	onValue func(any)
}

// CreateScope#post[failure_leaves_nothing]: the derived context must be cancelled when creation fails.
func TestReplay_FailedScopeCreationCancelsContext(t *testing.T) {
	for _, child := range []bool{false, true} {
		c := NewCollection()
		arm := false
		var seen context.Context
		c.AddScoped(func(ctx context.Context) error {
			seen = ctx
			if arm {
				return errors.New("initializer failed")
			}
			return nil
		})
		p, err := c.Build()
		if err != nil {
			t.Fatal(err)
		}
		var parent Provider = p
		if child {
			parent, err = p.CreateScope(context.Background())
			if err != nil {
				t.Fatal(err)
			}
		}
		arm = true
		seen = nil
		_, err = parent.CreateScope(context.Background())
		if err == nil || seen == nil {
			p.Close()
			continue
		}
		if seen.Err() == nil {
			t.Errorf("REPLAY-CONFIRMED CreateScope#post[failure_leaves_nothing] (child=%v): context derived for the failed scope is not cancelled", child)
		}
		p.Close()
	}
}

var _ = fmt.Sprintf

// scope.setInstance#assert[appended_only_to_a_list_that_will_be_closed]: an instance whose construction overlaps the Close of
// its scope (sequential form: the constructor closes the scope) must still be closed exactly once.
func TestReplay_DisposableCreatedWhileScopeCloses(t *testing.T) {
	for _, lt := range []Lifetime{Scoped, Transient} {
		c := NewCollection()
		var sc Scope
		var made *rpB
		ctor := func() *rpB {
			sc.Close()
			made = &rpB{&rpDisp{name: "late"}}
			return made
		}
		if lt == Scoped {
			c.AddScoped(ctor)
		} else {
			c.AddTransient(ctor)
		}
		p, err := c.Build()
		if err != nil {
			t.Fatal(err)
		}
		sc, err = p.CreateScope(context.Background())
		if err != nil {
			t.Fatal(err)
		}
		rpNoPanic(t, "scope.setInstance", func() { Resolve[*rpB](sc) })
		sc.Close()
		p.Close()
		if made == nil {
			t.Fatal("constructor did not run")
		}
		if n := atomic.LoadInt32(&made.closed); n != 1 {
			t.Errorf("REPLAY-CONFIRMED scope.setInstance#assert[appended_only_to_a_list_that_will_be_closed]: %v instance created while its scope was closing was closed %d times after scope and provider were closed, want exactly 1", lt, n)
		}
	}
}

// provider.CreateScope#post[a_scope_closed_during_its_creation_is_not_tracked]: a scope that is already closed when its creation
// finishes (an initializer closed it) must not stay in the provider's or the parent's table.
func TestReplay_ScopeClosedDuringItsOwnCreation(t *testing.T) {
	c := NewCollection()
	c.AddScoped(func(s Scope) { s.Close() })
	pv, err := c.Build()
	if err != nil {
		t.Fatal(err)
	}
	defer pv.Close()
	p := pv.(*provider)
	parent, err := pv.CreateScope(context.Background())
	if err == nil && parent != nil {
		parent.Close()
	}
	for i := 0; i < 20; i++ {
		if s, err := pv.CreateScope(context.Background()); err == nil && s != nil {
			s.Close()
		}
	}
	p.scopesMu.Lock()
	n := len(p.scopes)
	p.scopesMu.Unlock()
	if n != 0 {
		t.Errorf("REPLAY-CONFIRMED provider.CreateScope#post[a_scope_closed_during_its_creation_is_not_tracked]: %d closed scopes are still in the provider's table after 21 create/close cycles whose initializer closes the scope", n)
	}
}

type rpPanicky struct{ *rpDisp }

func (p *rpPanicky) Close() error { panic("close exploded") }

// scope.Close#nopanic[no_panic_escapes] / provider.Close#nopanic[no_panic_escapes]: a Disposable whose Close panics must not stop the
// remaining instances from being closed, nor leave the scope tracked.
func TestReplay_PanickingCloseDoesNotAbortDisposal(t *testing.T) {
	for _, what := range []string{"scope", "provider"} {
		c := NewCollection()
		first := &rpA{&rpDisp{name: "first"}}
		if what == "scope" {
			c.AddScoped(func() *rpA { return first })
			c.AddScoped(func(*rpA) *rpPanicky { return &rpPanicky{&rpDisp{name: "panicky"}} })
		} else {
			c.AddSingleton(func() *rpA { return first })
			c.AddSingleton(func(*rpA) *rpPanicky { return &rpPanicky{&rpDisp{name: "panicky"}} })
		}
		pv, err := c.Build()
		if err != nil {
			t.Fatal(err)
		}
		sc, _ := pv.CreateScope(context.Background())
		if _, err := Resolve[*rpPanicky](sc); err != nil {
			t.Fatal(err)
		}
		var cerr error
		escaped := false
		func() {
			defer func() {
				if r := recover(); r != nil {
					escaped = true
				}
			}()
			if what == "scope" {
				cerr = sc.Close()
			} else {
				cerr = pv.Close()
			}
		}()
		func() { defer func() { recover() }(); sc.Close(); pv.Close() }()
		if escaped || atomic.LoadInt32(&first.closed) != 1 || cerr == nil {
			t.Errorf("REPLAY-CONFIRMED %s.Close#nopanic[no_panic_escapes]: a disposable whose Close panics: panic escaped Close=%v, the instance created before it was closed %d times (want 1), Close returned %v (want a disposal error)", what, escaped, atomic.LoadInt32(&first.closed), cerr)
		}
	}
}

// scope.resolve#post[overlapping_close_reports_the_disposed_error]: a resolution whose construction overlaps the Close of its scope either
// completes normally or reports the disposed error; it does not hand out an instance the container has already disposed.
func TestReplay_ResolutionOverlappingCloseReportsDisposed(t *testing.T) {
	for _, lt := range []Lifetime{Scoped, Transient} {
		c := NewCollection()
		var sc Scope
		ctor := func() *rpC {
			sc.Close()
			return &rpC{&rpDisp{name: "late"}}
		}
		if lt == Scoped {
			c.AddScoped(ctor)
		} else {
			c.AddTransient(ctor)
		}
		p, err := c.Build()
		if err != nil {
			t.Fatal(err)
		}
		sc, err = p.CreateScope(context.Background())
		if err != nil {
			t.Fatal(err)
		}
		v, rerr := Resolve[*rpC](sc)
		if rerr == nil && v != nil && atomic.LoadInt32(&v.closed) != 0 {
			t.Errorf("REPLAY-CONFIRMED scope.resolve#post[overlapping_close_reports_the_disposed_error]: %v: Resolve returned an instance that is already disposed (closed %d times) with a nil error", lt, atomic.LoadInt32(&v.closed))
		}
		if rerr != nil && !errors.Is(rerr, ErrScopeDisposed) {
			t.Errorf("REPLAY-CONFIRMED scope.resolve#post[overlapping_close_reports_the_disposed_error]: %v: unexpected error %v", lt, rerr)
		}
		p.Close()
	}
}

type rpSlowChild struct {
	done atomic.Bool
	log  *[]string
	mu   *sync.Mutex
}

// closed from the parent's Close (two nested (*scope).Close frames) quickly, from the scope's own context watcher slowly
func (r *rpSlowChild) Close() error {
	buf := make([]byte, 1<<14)
	buf = buf[:runtime.Stack(buf, false)]
	if bytes.Count(buf, []byte("(*scope).Close(")) >= 2 {
		time.Sleep(5 * time.Millisecond)
	} else {
		time.Sleep(200 * time.Millisecond)
	}
	r.done.Store(true)
	r.mu.Lock()
	*r.log = append(*r.log, "child")
	r.mu.Unlock()
	return errors.New("child close failed")
}

type rpParentRes struct {
	log *[]string
	mu  *sync.Mutex
}

func (r *rpParentRes) Close() error {
	r.mu.Lock()
	*r.log = append(*r.log, "parent")
	r.mu.Unlock()
	return nil
}

// scope.Close#post[own_context_cancelled_after_the_children_are_closed]: one Close call on a scope whose children share its context
// (CreateScope(nil)). Close cancelled the scope's own context first; that woke the watcher goroutine of every child, the watchers won
// the race for the children's Close, the parent's own loop got nil at once from each child and went on: Close returned while child
// instances were still open, the parent disposed its own instance before its children were disposed, and the children's errors were lost.
func TestReplay_CloseWaitsForChildrenSharingItsContext(t *testing.T) {
	const n = 6
	var mu sync.Mutex
	var log []string
	var all []*rpSlowChild
	c := NewCollection()
	c.AddScoped(func() *rpSlowChild {
		r := &rpSlowChild{log: &log, mu: &mu}
		mu.Lock()
		all = append(all, r)
		mu.Unlock()
		return r
	})
	c.AddScoped(func() *rpParentRes { return &rpParentRes{log: &log, mu: &mu} })
	p, err := c.Build()
	if err != nil {
		t.Fatal(err)
	}
	parent, err := p.CreateScope(context.Background())
	if err != nil {
		t.Fatal(err)
	}
	if _, err := Resolve[*rpParentRes](parent); err != nil {
		t.Fatal(err)
	}
	for i := 0; i < n; i++ {
		child, err := parent.CreateScope(nil)
		if err != nil {
			t.Fatal(err)
		}
		if _, err := Resolve[*rpSlowChild](child); err != nil {
			t.Fatal(err)
		}
	}
	closeErr := parent.Close() // the only Close call, from this goroutine
	pending := 0
	for _, r := range all {
		if !r.done.Load() {
			pending++
		}
	}
	mu.Lock()
	before := 0
	for _, e := range log {
		if e == "parent" {
			break
		}
		before++
	}
	mu.Unlock()
	var de *DisposalError
	reported := 0
	if errors.As(closeErr, &de) {
		reported = len(de.Errors)
	}
	if pending != 0 || before != n || reported != n {
		t.Errorf("REPLAY-CONFIRMED scope.Close#post[own_context_cancelled_after_the_children_are_closed]: Close returned while %d of %d child instances were still open; the parent's own instance was disposed after %d of %d children; %d of %d child failures were reported", pending, n, before, n, reported, n)
	}
	time.Sleep(250 * time.Millisecond)
	p.Close()
}

type rpCfg struct{}

// scope.resolve#post[singleton_miss_on_a_closed_provider_reports_the_disposed_error]: a scope creation that overlaps provider.Close. The scope
// under creation is not yet known to the provider, so Close cannot close it; its remaining initializers resolve against a provider whose
// singletons are gone and reported "singleton not initialized at build time" - neither of the disposed errors was in the chain.
func TestReplay_CreateScopeOverlappingProviderClose(t *testing.T) {
	for _, viaChild := range []bool{false, true} {
		block := false
		entered, release := make(chan struct{}), make(chan struct{})
		c := NewCollection()
		c.AddSingleton(func() *rpCfg { return &rpCfg{} })
		c.AddScoped(func() {
			if block {
				close(entered)
				<-release
			}
		})
		c.AddScoped(func(cfg *rpCfg) {})
		p, err := c.Build()
		if err != nil {
			t.Fatal(err)
		}
		var parent Scope
		if viaChild {
			if parent, err = p.CreateScope(context.Background()); err != nil {
				t.Fatal(err)
			}
		}
		block = true
		errCh := make(chan error, 1)
		go func() {
			var err error
			if viaChild {
				_, err = parent.CreateScope(context.Background())
			} else {
				_, err = p.CreateScope(context.Background())
			}
			errCh <- err
		}()
		<-entered
		if err := p.Close(); err != nil {
			t.Fatal(err)
		}
		close(release)
		err = <-errCh
		if err == nil {
			t.Errorf("REPLAY-CONFIRMED scope.resolve#post[singleton_miss_on_a_closed_provider_reports_the_disposed_error]: a scope was created on a closed provider")
		} else if !errors.Is(err, ErrProviderDisposed) && !errors.Is(err, ErrScopeDisposed) {
			t.Errorf("REPLAY-CONFIRMED scope.resolve#post[singleton_miss_on_a_closed_provider_reports_the_disposed_error]: viaChild=%v: CreateScope overlapping provider.Close did not report a disposed error: %v", viaChild, err)
		}
	}
}

type rpBlocker struct {
	entered chan struct{}
	release chan struct{}
}

func (b *rpBlocker) Close() error { close(b.entered); <-b.release; return nil }

type rpLate struct{ closed int32 }

func (l *rpLate) Close() error { atomic.AddInt32(&l.closed, 1); return nil }

// scope.createScoped#post[a_waiter_overlapping_close_reports_the_disposed_error]: a resolution that WAITS for a construction in progress is a
// resolution whose construction overlaps Close, like the constructing one: when the scope was closed meanwhile, the instance has been
// disposed with it (setInstance closes a late instance right away) and the waiter must get the disposed error, not the closed instance.
func TestReplay_WaiterOverlappingCloseReportsDisposed(t *testing.T) {
	blocker := &rpBlocker{entered: make(chan struct{}), release: make(chan struct{})}
	inCtor, finish := make(chan struct{}), make(chan struct{})
	c := NewCollection()
	c.AddScoped(func() *rpBlocker { return blocker })
	c.AddScoped(func() *rpLate {
		close(inCtor)
		<-finish
		return &rpLate{}
	})
	p, err := c.Build()
	if err != nil {
		t.Fatal(err)
	}
	sc, _ := p.CreateScope(context.Background())
	if _, err := Resolve[*rpBlocker](sc); err != nil {
		t.Fatal(err)
	}
	type res struct {
		v   *rpLate
		err error
	}
	r1, r2 := make(chan res, 1), make(chan res, 1)
	go func() { v, err := Resolve[*rpLate](sc); r1 <- res{v, err} }() // constructs
	<-inCtor
	go func() { v, err := Resolve[*rpLate](sc); r2 <- res{v, err} }() // waits
	time.Sleep(20 * time.Millisecond)
	closed := make(chan struct{})
	go func() { sc.Close(); close(closed) }()
	<-blocker.entered // Close has set disposed and drained the list, and is now stuck in the first instance's Close
	close(finish)     // the construction ends while the scope is closing
	a, b := <-r1, <-r2
	close(blocker.release)
	<-closed
	for i, r := range []res{a, b} {
		if r.err == nil && r.v != nil && atomic.LoadInt32(&r.v.closed) != 0 {
			t.Errorf("REPLAY-CONFIRMED scope.createScoped#post[a_waiter_overlapping_close_reports_the_disposed_error]: resolution %d (0 constructs, 1 waits) was handed an instance that is already disposed (closed %d times) with a nil error", i, atomic.LoadInt32(&r.v.closed))
		}
		if r.err != nil && !errors.Is(r.err, ErrScopeDisposed) {
			t.Errorf("REPLAY-CONFIRMED scope.createScoped#post[a_waiter_overlapping_close_reports_the_disposed_error]: resolution %d: unexpected error %v", i, r.err)
		}
	}
	p.Close()
}

// scope.runInitializers#post[each_initializer_runs_exactly_once]: a scope initializer (a scoped function that returns nothing) that another
// initializer depends on through its marker was run by that resolution and then once more by the initializer loop.
func TestReplay_InitializerConsumedByAnotherRunsOnce(t *testing.T) {
	type second struct {
		In
		Marker struct{} `name:"second"`
	}
	var first, sec int32
	c := NewCollection()
	if err := c.AddScoped(func(in second) { atomic.AddInt32(&first, 1) }); err != nil {
		t.Skip("registration form not accepted: ", err)
	}
	if err := c.AddScoped(func() { atomic.AddInt32(&sec, 1) }, Name("second")); err != nil {
		t.Skip("registration form not accepted: ", err)
	}
	p, err := c.Build()
	if err != nil {
		t.Skip("build: ", err)
	}
	defer p.Close()
	atomic.StoreInt32(&first, 0)
	atomic.StoreInt32(&sec, 0)
	sc, err := p.CreateScope(context.Background())
	if err != nil {
		t.Fatal(err)
	}
	defer sc.Close()
	if f, s := atomic.LoadInt32(&first), atomic.LoadInt32(&sec); f != 1 || s != 1 {
		t.Errorf("REPLAY-CONFIRMED scope.runInitializers#post[each_initializer_runs_exactly_once]: creating one scope ran the initializers first=%d second=%d times, want 1 and 1", f, s)
	}
}
