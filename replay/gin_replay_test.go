package gin

// Replay family "middleware/gin": requests against the real gin integration.

import (
	"errors"
	"net/http"
	"net/http/httptest"
	"testing"

	"github.com/gin-gonic/gin"
	"github.com/junioryono/godi/v4"
)

// gin.ScopeMiddleware$1#post[rejected_request_is_aborted]: when a configured middleware fails, the error handler runs and the route
// handler does not - also with an error handler that only writes a response (gin runs the rest of the chain unless it is aborted).
func TestReplay_MiddlewareErrorStopsTheRequest(t *testing.T) {
	gin.SetMode(gin.TestMode)
	c := godi.NewCollection()
	p, err := c.Build()
	if err != nil {
		t.Fatal(err)
	}
	defer p.Close()
	handled, ran := 0, 0
	r := gin.New()
	r.Use(ScopeMiddleware(p,
		WithErrorHandler(func(c *gin.Context, err error) { handled++; c.JSON(http.StatusBadRequest, gin.H{"error": err.Error()}) }),
		WithMiddleware(func(godi.Scope, *gin.Context) error { return errors.New("rejected") })))
	r.GET("/x", func(c *gin.Context) { ran++; c.Status(http.StatusOK) })
	w := httptest.NewRecorder()
	r.ServeHTTP(w, httptest.NewRequest(http.MethodGet, "/x", nil))
	if handled != 1 || ran != 0 {
		t.Errorf("REPLAY-CONFIRMED gin.ScopeMiddleware$1#post[rejected_request_is_aborted]: a middleware rejected the request: error handler ran %d times, route handler ran %d times (want 1 and 0), status %d", handled, ran, w.Code)
	}
}
