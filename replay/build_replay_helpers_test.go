package godi

import (
	"testing"

	"github.com/junioryono/godi/v4/internal/reflection"
)

func reflectionAnalyzerOf(t *testing.T) *reflection.Analyzer { return reflection.New() }
