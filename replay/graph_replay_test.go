package graph

// Replay family "graph/ops": bounded exhaustive comparison of the real DependencyGraph with a plain reference digraph.
// Universe: 3 node identities; operation sequences of length <= GRAPH_OPS_LEN (default 3) over
// {AddProvider, AddProviderDeferred, RemoveProvider, Clear, DetectCycles} x identities x dependency sets.
// Bounded: this is a stand-in / witness search, never counted as proof.

import (
	"fmt"
	"os"
	"reflect"
	"sort"
	"strconv"
	"strings"
	"testing"
	"time"

	"github.com/junioryono/godi/v4/internal/reflection"
)

type rgT0 struct{}
type rgT1 struct{}
type rgT2 struct{}
type rgT3 struct{}

var rgTypes = []reflect.Type{reflect.TypeOf(rgT0{}), reflect.TypeOf(rgT1{}), reflect.TypeOf(rgT2{}), reflect.TypeOf(rgT3{})}

type rgProv struct {
	id   int
	deps []int
}

func rgKey(i int) NodeKey               { return NodeKey{Type: rgTypes[i]} }
func (p *rgProv) GetType() reflect.Type { return rgTypes[p.id] }
func (p *rgProv) GetKey() any           { return nil }
func (p *rgProv) GetGroup() string      { return "" }
func (p *rgProv) GetDependencies() []*reflection.Dependency {
	out := make([]*reflection.Dependency, 0, len(p.deps))
	for _, d := range p.deps {
		out = append(out, &reflection.Dependency{Type: rgTypes[d]})
	}
	return out
}

type rgModel struct {
	nodes map[int]bool
	edges map[int][]int
}

func (m *rgModel) clone() *rgModel {
	n := &rgModel{nodes: map[int]bool{}, edges: map[int][]int{}}
	for k := range m.nodes {
		n.nodes[k] = true
	}
	for k, v := range m.edges {
		n.edges[k] = append([]int(nil), v...)
	}
	return n
}

func (m *rgModel) cyclic() bool {
	state := map[int]int{}
	var dfs func(u int) bool
	dfs = func(u int) bool {
		state[u] = 1
		for _, v := range m.edges[u] {
			if state[v] == 1 || (state[v] == 0 && dfs(v)) {
				return true
			}
		}
		state[u] = 2
		return false
	}
	for u := range m.nodes {
		if state[u] == 0 && dfs(u) {
			return true
		}
	}
	return false
}

// cycleReachableFrom: some directed cycle is reachable from k (what an immediate add is documented to check)
func (m *rgModel) cycleReachableFrom(k int) bool {
	r := m.reach(k)
	r[k] = true
	for u := range r {
		if m.reach(u)[u] {
			return true
		}
	}
	return false
}

func (m *rgModel) reach(u int) map[int]bool {
	seen := map[int]bool{}
	var dfs func(x int)
	dfs = func(x int) {
		for _, v := range m.edges[x] {
			if !seen[v] {
				seen[v] = true
				dfs(v)
			}
		}
	}
	dfs(u)
	return seen
}

func (m *rgModel) add(k int, deps []int) {
	m.nodes[k] = true
	for _, d := range deps {
		m.nodes[d] = true
	}
	m.edges[k] = append([]int(nil), deps...)
}

func (m *rgModel) remove(k int) {
	if !m.nodes[k] {
		return
	}
	delete(m.nodes, k)
	delete(m.edges, k)
	for u, l := range m.edges {
		var f []int
		for _, v := range l {
			if v != k {
				f = append(f, v)
			}
		}
		m.edges[u] = f
	}
}

type rgOp struct {
	kind string
	k    int
	deps []int
}

func (o rgOp) String() string { return fmt.Sprintf("%s(%d,%v)", o.kind, o.k, o.deps) }

func rgIdx(k NodeKey) int {
	for i, t := range rgTypes {
		if k.Type == t {
			return i
		}
	}
	return -1
}

func rgSet(ks []NodeKey) string {
	var s []int
	seen := map[int]bool{}
	for _, k := range ks {
		if !seen[rgIdx(k)] {
			seen[rgIdx(k)] = true
			s = append(s, rgIdx(k))
		}
	}
	sort.Ints(s)
	return fmt.Sprint(s)
}

func rgSetI(m map[int]bool) string {
	var s []int
	for k, v := range m {
		if v {
			s = append(s, k)
		}
	}
	sort.Ints(s)
	return fmt.Sprint(s)
}

// compare returns the list of mismatch categories between graph and model.
func rgCompare(g *DependencyGraph, m *rgModel, fresh bool, n int) []string {
	var bad []string
	add := func(cat, f string, a ...any) { bad = append(bad, cat+": "+fmt.Sprintf(f, a...)) }
	if g.Size() != len(m.nodes) {
		add("size", "Size()=%d model=%d", g.Size(), len(m.nodes))
	}
	for i := 0; i < n; i++ {
		if g.HasNode(rgTypes[i], nil, "") != m.nodes[i] {
			add("membership", "HasNode(%d)=%v model=%v", i, !m.nodes[i], m.nodes[i])
		}
		if (g.GetNode(rgTypes[i], nil, "") != nil) != m.nodes[i] {
			add("membership", "GetNode(%d) disagrees", i)
		}
		deps := g.GetDependencies(rgTypes[i], nil, "")
		if m.nodes[i] {
			var got []int
			for _, d := range deps {
				got = append(got, rgIdx(d))
			}
			if fmt.Sprint(got) != fmt.Sprint(m.edges[i]) && !(len(got) == 0 && len(m.edges[i]) == 0) {
				add("dependencies", "GetDependencies(%d)=%v model=%v", i, got, m.edges[i])
			}
			tr := g.GetTransitiveDependencies(rgTypes[i], nil, "")
			want := m.reach(i)
			delete(want, i)
			gotT := map[int]bool{}
			for _, d := range tr {
				if rgIdx(d) != i {
					gotT[rgIdx(d)] = true
				}
			}
			if rgSetI(gotT) != rgSetI(want) {
				add("transitive", "GetTransitiveDependencies(%d)=%v model=%v", i, rgSetI(gotT), rgSetI(want))
			}
		} else if deps != nil {
			add("dependencies", "GetDependencies(%d) of absent node = %v", i, deps)
		}
	}
	if fresh {
		for i := 0; i < n; i++ {
			if !m.nodes[i] {
				continue
			}
			want := map[int]bool{}
			for u, l := range m.edges {
				for _, v := range l {
					if v == i {
						want[u] = true
					}
				}
			}
			if rgSet(g.GetDependents(rgTypes[i], nil, "")) != rgSetI(want) {
				add("dependents", "GetDependents(%d)=%v model=%v", i, rgSet(g.GetDependents(rgTypes[i], nil, "")), rgSetI(want))
			}
		}
		roots, leaves := map[int]bool{}, map[int]bool{}
		for i := range m.nodes {
			hasIn := false
			for _, l := range m.edges {
				for _, v := range l {
					if v == i {
						hasIn = true
					}
				}
			}
			if !hasIn {
				roots[i] = true
			}
			if len(m.edges[i]) == 0 {
				leaves[i] = true
			}
		}
		gr, gl := map[int]bool{}, map[int]bool{}
		for _, nd := range g.GetRoots() {
			gr[rgIdx(nd.Key)] = true
		}
		for _, nd := range g.GetLeaves() {
			gl[rgIdx(nd.Key)] = true
		}
		if rgSetI(gr) != rgSetI(roots) {
			add("roots", "GetRoots=%v model=%v", rgSetI(gr), rgSetI(roots))
		}
		if rgSetI(gl) != rgSetI(leaves) {
			add("leaves", "GetLeaves=%v model=%v", rgSetI(gl), rgSetI(leaves))
		}
	}
	// the topological order does not depend on the history: it is asked for after every operation, also in the middle of
	// a bulk phase (deferred adds not yet completed by DetectCycles), and must be right each time
	bad = append(bad, rgCheckSort(g, m)...)
	return bad
}

func rgCheckSort(g *DependencyGraph, m *rgModel) []string {
	var bad []string
	cyc := m.cyclic()
	order, terr := g.TopologicalSort()
	if (terr != nil) != cyc {
		bad = append(bad, fmt.Sprintf("toposort: error=%v model cyclic=%v", terr != nil, cyc))
	}
	if terr == nil {
		posn := map[int]int{}
		for i, nd := range order {
			if _, dup := posn[rgIdx(nd.Key)]; dup {
				bad = append(bad, "toposort: node listed twice")
			}
			posn[rgIdx(nd.Key)] = i
		}
		if len(posn) != len(m.nodes) {
			bad = append(bad, fmt.Sprintf("toposort: %d nodes listed, model has %d", len(posn), len(m.nodes)))
		}
		for u, l := range m.edges {
			for _, v := range l {
				if posn[v] >= posn[u] && u != v {
					bad = append(bad, fmt.Sprintf("toposort: dependency %d after dependent %d", v, u))
				}
			}
		}
	}
	return bad
}

func rgCheckCycle(g *DependencyGraph, m *rgModel) []string {
	var bad []string
	err := g.DetectCycles()
	cyc := m.cyclic()
	if (err != nil) != cyc {
		bad = append(bad, fmt.Sprintf("acyclicity: DetectCycles err=%v model cyclic=%v", err != nil, cyc))
	}
	if err != nil {
		if ce, ok := err.(*CircularDependencyError); ok {
			p := ce.Path
			okc := len(p) >= 2 && p[0] == p[len(p)-1]
			for i := 0; okc && i+1 < len(p); i++ {
				found := false
				for _, v := range m.edges[rgIdx(p[i])] {
					if v == rgIdx(p[i+1]) {
						found = true
					}
				}
				okc = found
			}
			if !okc {
				var ps []int
				for _, k := range p {
					ps = append(ps, rgIdx(k))
				}
				bad = append(bad, fmt.Sprintf("cyclepath: reported path %v is not a cycle of the graph %v", ps, m.edges))
			}
		}
	}
	if g.IsAcyclic() == cyc {
		bad = append(bad, fmt.Sprintf("acyclicity: IsAcyclic=%v model cyclic=%v (cached answer?)", !cyc, cyc))
	}
	// topological order
	order, terr := g.TopologicalSort()
	if (terr != nil) != cyc {
		bad = append(bad, fmt.Sprintf("toposort: error=%v model cyclic=%v", terr != nil, cyc))
	}
	if terr == nil {
		posn := map[int]int{}
		for i, nd := range order {
			if _, dup := posn[rgIdx(nd.Key)]; dup {
				bad = append(bad, "toposort: node listed twice")
			}
			posn[rgIdx(nd.Key)] = i
		}
		if len(posn) != len(m.nodes) {
			bad = append(bad, fmt.Sprintf("toposort: %d nodes listed, model has %d", len(posn), len(m.nodes)))
		}
		for u, l := range m.edges {
			for _, v := range l {
				if posn[v] >= posn[u] && u != v {
					bad = append(bad, fmt.Sprintf("toposort: dependency %d after dependent %d", v, u))
				}
			}
		}
		if !cyc {
			g.CalculateDepths()
			var depth func(u int) int
			depth = func(u int) int {
				d := 0
				for _, v := range m.edges[u] {
					if x := depth(v) + 1; x > d {
						d = x
					}
				}
				return d
			}
			for u := range m.nodes {
				if nd := g.GetNode(rgTypes[u], nil, ""); nd != nil && nd.Depth != depth(u) {
					bad = append(bad, fmt.Sprintf("depths: Depth(%d)=%d model=%d", u, nd.Depth, depth(u)))
				}
			}
		}
	}
	return bad
}

func rgDepSets(n int) [][]int {
	var out [][]int
	for mask := 0; mask < 1<<n; mask++ {
		var s []int
		for i := 0; i < n; i++ {
			if mask&(1<<i) != 0 {
				s = append(s, i)
			}
		}
		out = append(out, s)
	}
	// dependency lists may name the same dependency twice (multiplicity matters for the degree bookkeeping)
	for i := 0; i < n && i < 2; i++ {
		out = append(out, []int{i, i})
	}
	return out
}

func TestReplay_GraphOps(t *testing.T) {
	n := 3
	maxLen := 3
	if v, err := strconv.Atoi(os.Getenv("GRAPH_OPS_LEN")); err == nil {
		maxLen = v
	}
	if v, err := strconv.Atoi(os.Getenv("GRAPH_OPS_NODES")); err == nil {
		n = v
	}
	want := os.Getenv("GRAPH_OPS_CATEGORY") // restrict reporting to one category ("" = all)
	var ops []rgOp
	for k := 0; k < n; k++ {
		for _, ds := range rgDepSets(n) {
			ops = append(ops, rgOp{"add", k, ds}, rgOp{"addDeferred", k, ds})
		}
		ops = append(ops, rgOp{"remove", k, nil})
	}
	ops = append(ops, rgOp{"clear", 0, nil}, rgOp{"detect", 0, nil})
	found := map[string]string{}
	sequences := 0
	var rec func(prefix []rgOp)
	rec = func(prefix []rgOp) {
		if len(prefix) > 0 {
			sequences++
			g := NewDependencyGraph()
			m := &rgModel{nodes: map[int]bool{}, edges: map[int][]int{}}
			fresh := true
			for i, op := range prefix {
				switch op.kind {
				case "add":
					before := m.clone()
					m.add(op.k, op.deps)
					err := g.AddProvider(&rgProv{op.k, op.deps})
					if m.cycleReachableFrom(op.k) {
						// the add must be rejected and leave the graph exactly as it was
						m = before
						if err == nil {
							found["add-accepts-cycle"] = fmt.Sprint(prefix[:i+1])
						}
					} else if err != nil {
						found["add-rejects-dag"] = fmt.Sprint(prefix[:i+1])
						m = before
					}
					fresh = true
				case "addDeferred":
					m.add(op.k, op.deps)
					g.AddProviderDeferred(&rgProv{op.k, op.deps})
					fresh = false
				case "remove":
					if m.nodes[op.k] {
						fresh = true // an effective removal recomputes the derived fields
					}
					m.remove(op.k)
					g.RemoveProvider(rgTypes[op.k], nil, "")
				case "clear":
					m = &rgModel{nodes: map[int]bool{}, edges: map[int][]int{}}
					g.Clear()
				case "detect":
					for _, b := range rgCheckCycle(g, m) {
						cat := b[:strings.Index(b, ":")]
						if _, ok := found[cat]; !ok {
							found[cat] = fmt.Sprintf("%v -> %s", prefix[:i+1], b)
						}
					}
					fresh = true
				}
				for _, b := range rgCompare(g, m, fresh, n) {
					cat := b[:strings.Index(b, ":")]
					if op.kind == "add" {
						cat = "after-add/" + cat
					}
					if _, ok := found[cat]; !ok {
						found[cat] = fmt.Sprintf("%v -> %s", prefix[:i+1], b)
					}
				}
			}
			// final whole-graph checks
			for _, b := range rgCheckCycle(g, m) {
				cat := b[:strings.Index(b, ":")]
				if _, ok := found[cat]; !ok {
					found[cat] = fmt.Sprintf("%v ; detect -> %s", prefix, b)
				}
			}
		}
		if len(prefix) == maxLen {
			return
		}
		for _, op := range ops {
			rec(append(append([]rgOp(nil), prefix...), op))
		}
	}
	rec(nil)
	t.Logf("graph/ops: %d sequences of length <= %d over %d nodes", sequences, maxLen, n)
	var cats []string
	for c := range found {
		cats = append(cats, c)
	}
	sort.Strings(cats)
	for _, c := range cats {
		if want == "" || strings.Contains(c, want) {
			t.Errorf("REPLAY-CONFIRMED graph/ops category=%s witness: %s", c, found[c])
		}
	}
}

type rgT4 struct{}

// Bounded stand-in "graph/dags": every DAG over <= 5 nodes whose edges go from a higher to a lower index (2^10 graphs at 5 nodes),
// inserted in ascending and descending order: depths are longest dependency chains, the topological order lists
// dependencies first, roots/leaves/dependents agree with the reference digraph.
func TestReplay_GraphDAGs(t *testing.T) {
	types5 := append(append([]reflect.Type{}, rgTypes...), reflect.TypeOf(rgT4{}))
	saved := rgTypes
	rgTypes = types5
	defer func() { rgTypes = saved }()
	n := 5
	if v, err := strconv.Atoi(os.Getenv("GRAPH_DAG_NODES")); err == nil && v <= 5 {
		n = v
	}
	type pair struct{ u, v int }
	var pairs []pair
	for u := 1; u < n; u++ {
		for v := 0; v < u; v++ {
			pairs = append(pairs, pair{u, v})
		}
	}
	graphs := 0
	reported := map[string]bool{}
	for mask := 0; mask < 1<<len(pairs); mask++ {
		m := &rgModel{nodes: map[int]bool{}, edges: map[int][]int{}}
		for i := 0; i < n; i++ {
			m.nodes[i] = true
		}
		for i, p := range pairs {
			if mask&(1<<i) != 0 {
				m.edges[p.u] = append(m.edges[p.u], p.v)
			}
		}
		for _, descending := range []bool{false, true} {
			graphs++
			g := NewDependencyGraph()
			for j := 0; j < n; j++ {
				i := j
				if descending {
					i = n - 1 - j
				}
				g.AddProviderDeferred(&rgProv{i, m.edges[i]})
			}
			bad := rgCheckCycle(g, m)
			bad = append(bad, rgCompare(g, m, true, n)...)
			for _, b := range bad {
				cat := b[:strings.Index(b, ":")]
				if !reported[cat] {
					reported[cat] = true
					t.Errorf("REPLAY-CONFIRMED graph/dags category=%s witness: edges=%v descending=%v -> %s", cat, m.edges, descending, b)
				}
			}
		}
	}
	t.Logf("graph/dags: %d graphs over %d nodes", graphs, n)
}

// A query in the middle of a bulk phase (deferred adds not yet completed by DetectCycles) must not poison later answers:
// once the documented cycle check has run, TopologicalSort lists every dependency before its dependent again, and on a graph
// built by deferred adds alone it does not invent a cycle.
func TestReplay_GraphSortIgnoresStaleDegrees(t *testing.T) {
	wrong, invented := 0, 0
	for i := 0; i < 200; i++ {
		g := NewDependencyGraph()
		// 1 <- 0 ; 3 <- 2, then 0 is replaced (deferred) by a provider that depends on 2 instead of 1
		for _, p := range []*rgProv{{1, nil}, {3, nil}, {2, []int{3}}, {0, []int{1}}} {
			if err := g.AddProvider(p); err != nil {
				t.Fatal(err)
			}
		}
		if _, err := g.TopologicalSort(); err != nil {
			t.Fatal(err)
		}
		g.AddProviderDeferred(&rgProv{0, []int{2}})
		_, _ = g.TopologicalSort() // query while the bulk phase is open
		if err := g.DetectCycles(); err != nil {
			t.Fatal(err)
		}
		sorted, err := g.TopologicalSort()
		if err != nil {
			t.Fatalf("unexpected error %v", err)
		}
		pos := map[int]int{}
		for j, nd := range sorted {
			pos[rgIdx(nd.Key)] = j
		}
		if len(sorted) != 4 || pos[2] > pos[0] {
			wrong++
		}
		// deferred adds alone: 0 -> 1, acyclic
		h := NewDependencyGraph()
		h.AddProviderDeferred(&rgProv{0, []int{1}})
		h.AddProviderDeferred(&rgProv{1, nil})
		if _, err := h.TopologicalSort(); err != nil {
			invented++
		}
	}
	if wrong > 0 {
		t.Errorf("REPLAY-CONFIRMED DependencyGraph.TopologicalSort#assert[entry_stands_for_an_occurrence]: in %d of 200 runs the order returned after DetectCycles lists node 0 before its dependency 2 (order computed from stale Dependents was cached as clean)", wrong)
	}
	if invented > 0 {
		t.Errorf("REPLAY-CONFIRMED DependencyGraph.TopologicalSort#post[gives_up_only_without_ranking]: in %d of 200 runs TopologicalSort reported a cycle in the acyclic graph 0 -> 1 built by deferred adds", invented)
	}
}

type ofgA struct{}
type ofgB struct{}
type ofgC struct{}
type ofgProv struct {
	t    reflect.Type
	deps []reflect.Type
}

func (p *ofgProv) GetType() reflect.Type { return p.t }
func (p *ofgProv) GetKey() any           { return nil }
func (p *ofgProv) GetGroup() string      { return "" }
func (p *ofgProv) GetDependencies() []*reflection.Dependency {
	var ds []*reflection.Dependency
	for i, d := range p.deps {
		ds = append(ds, &reflection.Dependency{Type: d, Index: i})
	}
	return ds
}

// C19 (termination, not expressible as a partial-correctness obligation): on a graph with a cycle that is reachable from a node without dependencies (such graphs exist after deferred adds: DetectCycles
// reports the cycle, it does not remove it) CalculateDepths relaxes for ever - holding the write lock, so every other query blocks too.
func TestReplay_GraphDepthsTerminateOnACyclicGraph(t *testing.T) {
	a, b, c := reflect.TypeOf(ofgA{}), reflect.TypeOf(ofgB{}), reflect.TypeOf(ofgC{})
	g := NewDependencyGraph()
	g.AddProviderDeferred(&ofgProv{t: c})
	g.AddProviderDeferred(&ofgProv{t: a, deps: []reflect.Type{b}})
	g.AddProviderDeferred(&ofgProv{t: b, deps: []reflect.Type{a, c}})
	if g.DetectCycles() == nil {
		t.Fatal("expected a cycle")
	}
	done := make(chan struct{})
	go func() { g.CalculateDepths(); close(done) }()
	select {
	case <-done:
	case <-time.After(2 * time.Second):
		t.Errorf("REPLAY-CONFIRMED DependencyGraph.CalculateDepths[termination on a cyclic graph]: CalculateDepths did not return within 2s on the cyclic graph a->b, b->a, b->c")
	}
}
