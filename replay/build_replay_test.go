package godi

// Replay family "build/config" and "registry/history": concrete registration sets against the real Build / collection.

import (
	"context"
	"errors"
	"fmt"
	"reflect"
	"testing"
)

type rbLogger struct{ id int }
type rbRepo struct{ l *rbLogger }
type rbPlugin struct{ name string }
type rbHost struct{ plugins []*rbPlugin }

//go:noinline
func rbFactory(id int) func() *rbLogger { return func() *rbLogger { return &rbLogger{id: id} } }

// reflection.Analyzer.Analyze#post[describes_the_given_constructor]: two closures produced by one factory share a code pointer.
func TestReplay_ClosuresSharingCode(t *testing.T) {
	c := NewCollection()
	if err := c.AddSingleton(rbFactory(1), Name("one")); err != nil {
		t.Fatal(err)
	}
	if err := c.AddSingleton(rbFactory(2), Name("two")); err != nil {
		t.Fatal(err)
	}
	p, err := c.Build()
	if err != nil {
		t.Fatal(err)
	}
	defer p.Close()
	two, err := ResolveKeyed[*rbLogger](p, "two")
	if err != nil {
		t.Fatal(err)
	}
	if two.id != 2 {
		t.Errorf("REPLAY-CONFIRMED Analyzer.Analyze#post[describes_the_given_constructor]: service registered with closure #2 was built by closure #%d", two.id)
	}
}

type rbStructErr struct{ msg string }

func (e rbStructErr) Error() string { return e.msg }

// reflection.ConstructorInvoker.Invoke#safety[reflect-IsNil-kind]: constructor whose error result is a struct type.
func TestReplay_StructErrorReturn(t *testing.T) {
	c := NewCollection()
	if err := c.AddTransient(func() (*rbLogger, rbStructErr) { return &rbLogger{}, rbStructErr{} }); err != nil {
		t.Skip("registration rejected: ", err)
	}
	p, err := c.Build()
	if err != nil {
		t.Skip("build rejected: ", err)
	}
	defer p.Close()
	func() {
		defer func() {
			if r := recover(); r != nil {
				t.Errorf("REPLAY-CONFIRMED ConstructorInvoker.Invoke#safety[reflect-IsNil-kind]: panic escaped Resolve: %v", r)
			}
		}()
		_, _ = Resolve[*rbLogger](p)
	}()
}

type rbScopedDep struct{ n int }
type rbGroupConsumer struct{ deps []*rbScopedDep }

// collection.validateLifetimes#post[accepted_means_no_captive_group_dependency]: singleton consuming a group with a scoped member.
func TestReplay_CaptiveThroughGroup(t *testing.T) {
	c := NewCollection()
	n := 0
	if err := c.AddScoped(func() *rbScopedDep { n++; return &rbScopedDep{n} }, Group("g")); err != nil {
		t.Fatal(err)
	}
	type in struct {
		In
		Deps []*rbScopedDep `group:"g"`
	}
	if err := c.AddSingleton(func(i in) *rbGroupConsumer { return &rbGroupConsumer{i.Deps} }); err != nil {
		t.Fatal(err)
	}
	p, err := c.Build()
	if err != nil {
		var lc *LifetimeConflictError
		if !errors.As(err, &lc) {
			t.Logf("build failed differently: %v", err)
		}
		return
	}
	defer p.Close()
	t.Errorf("REPLAY-CONFIRMED validateLifetimes#post[accepted_means_no_captive_group_dependency]: Build accepted a singleton that consumes a group with a scoped member")
}

type rbCycA struct{}
type rbCycB struct{}

// lemma glue_group_dependency_is_an_edge: a cycle that passes through a group is not seen by the graph.
func TestReplay_CycleThroughGroup(t *testing.T) {
	c := NewCollection()
	type inA struct {
		In
		Bs []*rbCycB `group:"bs"`
	}
	c.AddScoped(func(i inA) *rbCycA { return &rbCycA{} })
	c.AddScoped(func(a *rbCycA) *rbCycB { return &rbCycB{} }, Group("bs"))
	p, err := c.Build()
	if err != nil {
		var ce *CircularDependencyError
		if errors.As(err, &ce) {
			return
		}
		t.Fatalf("unexpected build error %v", err)
	}
	p.Close()
	t.Errorf("REPLAY-CONFIRMED lemma.glue_group_dependency_is_an_edge: Build accepted a registration set whose dependencies contain a cycle through a group (resolution would not terminate)")
}

type rbOrdA struct{ id int }
type rbOrdUser struct{}

// lemma glue_group_dependency_is_an_edge (C06): singleton consuming a group of singletons with dependencies: verdict depends on map order.
func TestReplay_GroupMembersCreatedFirst(t *testing.T) {
	fails := 0
	for i := 0; i < 40; i++ {
		c := NewCollection()
		c.AddSingleton(func() *rbLogger { return &rbLogger{} })
		c.AddSingleton(func(l *rbLogger) *rbOrdA { return &rbOrdA{1} }, Group("as"))
		c.AddSingleton(func(l *rbLogger) *rbOrdA { return &rbOrdA{2} }, Group("as"))
		type in struct {
			In
			As []*rbOrdA `group:"as"`
		}
		c.AddSingleton(func(i in) *rbOrdUser { return &rbOrdUser{} })
		p, err := c.Build()
		if err != nil {
			fails++
			continue
		}
		p.Close()
	}
	if fails != 0 {
		t.Errorf("REPLAY-CONFIRMED lemma.glue_group_dependency_is_an_edge: Build of a valid registration set failed in %d of 40 runs (a singleton was constructed before group members it depends on)", fails)
	}
}

// collection.Remove#post[removed_from_build]
func TestReplay_RemovedRegistrationStillBuilt(t *testing.T) {
	for _, keyed := range []bool{false, true} {
		c := NewCollection()
		ran := 0
		ctor := func() *rbLogger { ran++; return &rbLogger{} }
		if keyed {
			c.AddSingleton(ctor, Name("k"))
			c.RemoveKeyed(reflect.TypeOf((*rbLogger)(nil)), "k")
		} else {
			c.AddSingleton(ctor)
			c.Remove(reflect.TypeOf((*rbLogger)(nil)))
		}
		if c.Count() != 0 {
			t.Errorf("REPLAY-CONFIRMED collection.Remove#post[removed_from_build] (keyed=%v): Count() = %d after removing the only registration", keyed, c.Count())
		}
		p, err := c.Build()
		if err == nil {
			p.Close()
		}
		if ran != 0 {
			t.Errorf("REPLAY-CONFIRMED collection.Remove#post[removed_from_build] (keyed=%v): constructor of the removed registration ran %d time(s) during Build", keyed, ran)
		}
	}
}

// collection.doBuild#assert[snapshot_of_registry]
func TestReplay_ProviderSeesLaterCollectionChanges(t *testing.T) {
	c := NewCollection()
	c.AddTransient(func() *rbLogger { return &rbLogger{id: 1} })
	p, err := c.Build()
	if err != nil {
		t.Fatal(err)
	}
	defer p.Close()
	c.AddTransient(func() *rbPlugin { return &rbPlugin{"late"} })
	if _, err := Resolve[*rbPlugin](p); err == nil {
		t.Errorf("REPLAY-CONFIRMED doBuild#assert[snapshot_of_registry]: a provider resolves a service registered after Build")
	}
	c.Remove(reflect.TypeOf((*rbLogger)(nil)))
	if _, err := Resolve[*rbLogger](p); err != nil {
		t.Errorf("REPLAY-CONFIRMED doBuild#assert[snapshot_of_registry]: Remove on the collection un-registered a service of an already built provider: %v", err)
	}
}

var _ = context.Background
var _ = fmt.Sprint

type rbCtxImpl struct{ context.Context }

// collection.registerDescriptor#post[reserved_types_rejected]: reserved built-in types registered through As / extra return values.
func TestReplay_ReservedTypesThroughOtherPaths(t *testing.T) {
	c := NewCollection()
	if err := c.AddScoped(func() *rbCtxImpl { return &rbCtxImpl{context.Background()} }, As[context.Context]()); err == nil {
		t.Errorf("REPLAY-CONFIRMED registerDescriptor#post[reserved_types_rejected]: context.Context was registered through As[context.Context]()")
	}
	c2 := NewCollection()
	if err := c2.AddScoped(func() (*rbLogger, context.Context) { return &rbLogger{}, context.Background() }); err == nil {
		t.Errorf("REPLAY-CONFIRMED registerDescriptor#post[reserved_types_rejected]: context.Context was registered as a second return value")
	}
}

type rbMultiA struct{}
type rbMultiB struct{}

// collection.addService#post[rejected_registration_leaves_the_collection_unchanged]: a multi-output registration that collides on a later output.
func TestReplay_RejectedMultiOutputRegistrationIsAtomic(t *testing.T) {
	c := NewCollection()
	if err := c.AddSingleton(func() *rbMultiB { return &rbMultiB{} }); err != nil {
		t.Fatal(err)
	}
	before := c.Count()
	err := c.AddSingleton(func() (*rbMultiA, *rbMultiB) { return &rbMultiA{}, &rbMultiB{} })
	if err == nil {
		t.Skip("registration accepted")
	}
	if c.Count() != before || c.Contains(reflect.TypeOf((*rbMultiA)(nil))) {
		t.Errorf("REPLAY-CONFIRMED addService#post[rejected_registration_leaves_the_collection_unchanged]: rejected registration left %d descriptor(s) behind (Contains(*rbMultiA)=%v)", c.Count()-before, c.Contains(reflect.TypeOf((*rbMultiA)(nil))))
	}
}

type rbMissing struct{ n int }
type rbNeedsMissing struct{ m *rbMissing }
type rbKeyedCtxIn struct {
	In
	Ctx context.Context `name:"audit"`
}
type rbOptIn struct {
	In
	M *rbMissing `optional:"true"`
}

// godi.collection.doBuild#post[accepted_means_every_required_dependency_is_registered]: a scoped / transient service whose
// required dependency is not registered (singletons fail only as a side effect of eager construction).
func TestReplay_MissingDependencyAcceptedByBuild(t *testing.T) {
	for _, lt := range []Lifetime{Scoped, Transient, Singleton} {
		c := NewCollection()
		ctor := func(m *rbMissing) *rbNeedsMissing { return &rbNeedsMissing{m: m} }
		var err error
		switch lt {
		case Scoped:
			err = c.AddScoped(ctor)
		case Transient:
			err = c.AddTransient(ctor)
		default:
			err = c.AddSingleton(ctor)
		}
		if err != nil {
			t.Fatal(err)
		}
		p, err := c.Build()
		if err == nil {
			sc, _ := p.CreateScope(context.Background())
			_, rerr := Resolve[*rbNeedsMissing](sc)
			t.Errorf("REPLAY-CONFIRMED collection.doBuild#post[accepted_means_every_required_dependency_is_registered]: Build accepted a %v service whose required dependency *rbMissing is not registered; resolving it fails with: %v", lt, rerr)
			p.Close()
		}
	}
	// a built-in type requested under a key is not built in: resolution looks it up like any other keyed service
	{
		c := NewCollection()
		if err := c.AddScoped(func(in rbKeyedCtxIn) *rbNeedsMissing { return &rbNeedsMissing{} }); err != nil {
			t.Fatal(err)
		}
		if p, err := c.Build(); err == nil {
			sc, _ := p.CreateScope(context.Background())
			_, rerr := Resolve[*rbNeedsMissing](sc)
			if rerr != nil {
				t.Errorf("REPLAY-CONFIRMED collection.validateDependencies#post[accepted_means_registered]: Build accepted a service whose required dependency is context.Context under the key \"audit\" (nothing is registered under it); resolving it fails with: %v", rerr)
			}
			p.Close()
		}
	}
	// acceptance direction: an optional missing dependency and an empty group do not make Build fail
	c := NewCollection()
	if err := c.AddScoped(func(in rbOptIn) *rbNeedsMissing { return &rbNeedsMissing{m: in.M} }); err != nil {
		t.Fatal(err)
	}
	if p, err := c.Build(); err != nil {
		t.Errorf("REPLAY-CONFIRMED collection.doBuild#post[missing_optional_dependency_is_accepted]: Build rejected a set whose only missing dependency is optional: %v", err)
	} else {
		p.Close()
	}
}

// godi.collection.doBuild#post[root_initializers_run_after_singletons]: a scope initializer function (scoped, returns nothing)
// that takes a singleton must not make Build fail.
func TestReplay_InitializerDependingOnSingleton(t *testing.T) {
	c := NewCollection()
	if err := c.AddSingleton(func() *rbLogger { return &rbLogger{id: 7} }); err != nil {
		t.Fatal(err)
	}
	ran := 0
	if err := c.AddScoped(func(l *rbLogger) {
		if l != nil && l.id == 7 {
			ran++
		}
	}); err != nil {
		t.Fatal(err)
	}
	p, err := c.Build()
	if err != nil {
		t.Fatalf("REPLAY-CONFIRMED collection.doBuild#post[root_initializers_run_after_singletons]: Build fails although every dependency is registered, acyclic and lifetime-correct: %v", err)
	}
	defer p.Close()
	if ran != 1 {
		t.Errorf("REPLAY-CONFIRMED collection.doBuild#post[root_initializers_run_after_singletons]: initializer ran %d times for the root scope, want 1", ran)
	}
	sc, err := p.CreateScope(context.Background())
	if err != nil {
		t.Fatal(err)
	}
	defer sc.Close()
	if ran != 2 {
		t.Errorf("REPLAY-CONFIRMED newScope#post[initializers_once_in_order]: initializer ran %d times after one more scope, want 2", ran)
	}
}

type rbOutA struct{ n int }
type rbOutB struct{ n int }
type rbOut struct {
	Out
	A *rbOutA
	B *rbOutB `group:"rb-bs"`
}

// scope.createInstance#post[every_output_is_cached_under_its_registration_identity]: outputs of one constructor registered under a
// name or in a group must be resolvable under exactly those identities, and the constructor runs once per owner.
func TestReplay_MultiOutputIdentities(t *testing.T) {
	// multiple return values + Name: the first return value is registered under the name
	c := NewCollection()
	runs := 0
	if err := c.AddSingleton(func() (*rbOutA, *rbOutB) { runs++; return &rbOutA{1}, &rbOutB{2} }, Name("x")); err != nil {
		t.Fatal(err)
	}
	p, err := c.Build()
	if err != nil {
		t.Errorf("REPLAY-CONFIRMED scope.createInstance#post[every_output_is_cached_under_its_registration_identity]: multi-return constructor registered with a name cannot be built: %v", err)
	} else {
		if a, err := ResolveKeyed[*rbOutA](p, "x"); err != nil || a == nil || a.n != 1 {
			t.Errorf("REPLAY-CONFIRMED scope.createInstance#post[every_output_is_cached_under_its_registration_identity]: first return value not resolvable under its name: %v %v", a, err)
		}
		if b, err := Resolve[*rbOutB](p); err != nil || b == nil || b.n != 2 {
			t.Errorf("REPLAY-CONFIRMED scope.createInstance#post[every_output_is_cached_under_its_registration_identity]: second return value not resolvable: %v %v", b, err)
		}
		if runs != 1 {
			t.Errorf("REPLAY-CONFIRMED scope.createInstance#post[every_output_is_cached_under_its_registration_identity]: singleton multi-return constructor ran %d times", runs)
		}
		p.Close()
	}
	// result object with a group field
	for _, lt := range []Lifetime{Singleton, Scoped} {
		c := NewCollection()
		runs := 0
		ctor := func() rbOut { runs++; return rbOut{A: &rbOutA{1}, B: &rbOutB{2}} }
		if lt == Singleton {
			err = c.AddSingleton(ctor)
		} else {
			err = c.AddScoped(ctor)
		}
		if err != nil {
			t.Fatal(err)
		}
		p, err := c.Build()
		if err != nil {
			t.Errorf("REPLAY-CONFIRMED scope.createInstance#post[every_output_is_cached_under_its_registration_identity]: %v result object with a group field cannot be built: %v", lt, err)
			continue
		}
		sc, _ := p.CreateScope(context.Background())
		before := runs
		a, aerr := Resolve[*rbOutA](sc)
		bs, berr := ResolveGroup[*rbOutB](sc, "rb-bs")
		if aerr != nil || a == nil || berr != nil || len(bs) != 1 || bs[0].n != 2 {
			t.Errorf("REPLAY-CONFIRMED scope.createInstance#post[every_output_is_cached_under_its_registration_identity]: %v result object: plain field %v (%v), group field %v (%v)", lt, a, aerr, bs, berr)
		}
		want := before
		if lt == Scoped {
			want = before + 1
		}
		if runs != want {
			t.Errorf("REPLAY-CONFIRMED scope.createInstance#post[every_output_is_cached_under_its_registration_identity]: %v result-object constructor ran %d times for one owner, want %d", lt, runs-before+boolInt(lt == Singleton), 1)
		}
		sc.Close()
		p.Close()
	}
}

func boolInt(b bool) int {
	if b {
		return 1
	}
	return 0
}

type rbAliasA interface{ AliasA() }
type rbAliasB interface{ AliasB() }
type rbAliased struct {
	n      int
	closed int
}

func (*rbAliased) AliasA()        {}
func (*rbAliased) AliasB()        {}
func (r *rbAliased) Close() error { r.closed++; return nil }

// collection.addService#post[outputs_of_one_registration_are_linked]: a service registered under several interface aliases is ONE
// service: its constructor runs once per owner, every alias yields that instance, and it is disposed once.
func TestReplay_AliasesShareOneInstance(t *testing.T) {
	for _, lt := range []Lifetime{Singleton, Scoped} {
		runs := 0
		c := NewCollection()
		ctor := func() *rbAliased { runs++; return &rbAliased{n: runs} }
		var err error
		if lt == Singleton {
			err = c.AddSingleton(ctor, As[rbAliasA](), As[rbAliasB]())
		} else {
			err = c.AddScoped(ctor, As[rbAliasA](), As[rbAliasB]())
		}
		if err != nil {
			t.Fatal(err)
		}
		p, err := c.Build()
		if err != nil {
			t.Fatal(err)
		}
		sc, _ := p.CreateScope(context.Background())
		before := runs
		a, aerr := Resolve[rbAliasA](sc)
		b, berr := Resolve[rbAliasB](sc)
		if aerr != nil || berr != nil {
			t.Fatalf("%v %v", aerr, berr)
		}
		if any(a) != any(b) {
			t.Errorf("REPLAY-CONFIRMED collection.addService#post[outputs_of_one_registration_are_linked]: %v service registered under two interface aliases: the aliases resolve to different instances (#%d and #%d)", lt, a.(*rbAliased).n, b.(*rbAliased).n)
		}
		want := before
		if lt == Scoped {
			want++
		}
		if runs != want {
			t.Errorf("REPLAY-CONFIRMED collection.addService#post[outputs_of_one_registration_are_linked]: %v constructor behind two aliases ran %d times in total, want %d", lt, runs, want)
		}
		sc.Close()
		p.Close()
		if inst := a.(*rbAliased); inst.closed != 1 {
			t.Errorf("REPLAY-CONFIRMED collection.addService#post[outputs_of_one_registration_are_linked]: %v instance behind two aliases was closed %d times, want 1", lt, inst.closed)
		}
	}
	// an instance value under two aliases is closed once
	v := &rbAliased{n: 9}
	c := NewCollection()
	if err := c.AddSingleton(v, As[rbAliasA](), As[rbAliasB]()); err != nil {
		t.Fatal(err)
	}
	p, err := c.Build()
	if err != nil {
		t.Fatal(err)
	}
	p.Close()
	if v.closed != 1 {
		t.Errorf("REPLAY-CONFIRMED collection.addService#post[outputs_of_one_registration_are_linked]: instance value registered under two aliases was closed %d times, want 1", v.closed)
	}
}

// scope.createInstance#post[removed_outputs_are_not_stored]: removing one output of a multi-output registration and registering
// the type again: the new registration is the one that is built and resolved, the removed one leaves nothing behind.
func TestReplay_RemovedOutputStaysRemoved(t *testing.T) {
	c := NewCollection()
	oldRuns, newRuns := 0, 0
	if err := c.AddSingleton(func() (*rbOutA, *rbOutB) { oldRuns++; return &rbOutA{1}, &rbOutB{1} }); err != nil {
		t.Fatal(err)
	}
	c.Remove(reflect.TypeOf((*rbOutA)(nil)))
	if err := c.AddSingleton(func() *rbOutA { newRuns++; return &rbOutA{2} }); err != nil {
		t.Fatal(err)
	}
	p, err := c.Build()
	if err != nil {
		t.Fatalf("REPLAY-CONFIRMED scope.createInstance#post[removed_outputs_are_not_stored]: Build fails after removing one output of a two-output registration: %v", err)
	}
	defer p.Close()
	a, err := Resolve[*rbOutA](p)
	if err != nil || a == nil || a.n != 2 || newRuns != 1 {
		t.Errorf("REPLAY-CONFIRMED scope.createInstance#post[removed_outputs_are_not_stored]: *rbOutA resolves to %v (err %v), the new constructor ran %d times: the removed output of the old registration is still what is built", a, err, newRuns)
	}
	if b, err := Resolve[*rbOutB](p); err != nil || b == nil || b.n != 1 || oldRuns != 1 {
		t.Errorf("REPLAY-CONFIRMED scope.createInstance#post[removed_outputs_are_not_stored]: remaining output *rbOutB: %v (err %v), old constructor ran %d times", b, err, oldRuns)
	}
	// removing an output without replacing it
	c2 := NewCollection()
	if err := c2.AddSingleton(func() (*rbOutA, *rbOutB) { return &rbOutA{1}, &rbOutB{1} }); err != nil {
		t.Fatal(err)
	}
	c2.Remove(reflect.TypeOf((*rbOutA)(nil)))
	p2, err := c2.Build()
	if err != nil {
		t.Fatalf("REPLAY-CONFIRMED scope.createInstance#post[removed_outputs_are_not_stored]: Build fails after removing one output of a two-output registration: %v", err)
	}
	defer p2.Close()
	if _, err := Resolve[*rbOutA](p2); err == nil {
		t.Errorf("REPLAY-CONFIRMED scope.createInstance#post[removed_outputs_are_not_stored]: the removed output is still resolvable")
	}
	if b, err := Resolve[*rbOutB](p2); err != nil || b == nil {
		t.Errorf("REPLAY-CONFIRMED scope.createInstance#post[removed_outputs_are_not_stored]: the remaining output is no longer resolvable: %v", err)
	}
}

type rbPeer struct{ peers []*rbPeer }
type rbPeerIn struct {
	In
	Peers []*rbPeer `group:"rb-peers" name:"ignored-at-resolution"`
}

// reflection.Analyzer.buildDependencies#post[one_dependency_per_parameter]: a group field is resolved as the whole group whatever
// other tags it carries, so its dependency must be the group - also for cycle detection.
func TestReplay_GroupFieldWithNameTagIsStillAGroupDependency(t *testing.T) {
	c := NewCollection()
	if err := c.AddTransient(func(in rbPeerIn) *rbPeer { return &rbPeer{peers: in.Peers} }, Group("rb-peers")); err != nil {
		t.Fatal(err)
	}
	p, err := c.Build()
	if err == nil {
		p.Close()
		t.Errorf("REPLAY-CONFIRMED Analyzer.buildDependencies#post[one_dependency_per_parameter]: Build accepted a member of group rb-peers that consumes the group rb-peers (through a field tagged group and name): resolving it would recurse without end")
		return
	}
	var ce *CircularDependencyError
	if !errors.As(err, &ce) {
		t.Errorf("REPLAY-CONFIRMED Analyzer.buildDependencies#post[one_dependency_per_parameter]: rejected, but not as a circular dependency: %v", err)
	}
}

type rbBadCloser struct{}

func (*rbBadCloser) Close() error { return errors.New("close failed") }

type rbNeedsCloser struct{}

// godi.collection.doBuild#post[failed_singleton_phase_is_classifiable]: the error of a failing singleton constructor stays reachable
// through the Build error also when cleaning up the half-built provider fails as well.
func TestReplay_BuildFailureKeepsItsCause(t *testing.T) {
	errCtor := errors.New("constructor failed")
	c := NewCollection()
	if err := c.AddSingleton(func() *rbBadCloser { return &rbBadCloser{} }); err != nil {
		t.Fatal(err)
	}
	if err := c.AddSingleton(func(*rbBadCloser) (*rbNeedsCloser, error) { return nil, errCtor }); err != nil {
		t.Fatal(err)
	}
	_, err := c.Build()
	if err == nil {
		t.Fatal("Build succeeded")
	}
	if !errors.Is(err, errCtor) {
		t.Errorf("REPLAY-CONFIRMED collection.doBuild#post[failed_singleton_phase_is_classifiable]: the constructor's own error is not reachable from the Build error when cleanup fails too: %v", err)
	}
}

type rbPick struct{ tag string }
type rbPickOut struct {
	Out
	Plain   *rbPick
	Grouped *rbPick `group:"rb-picks"`
}

// scope.createInstance#assert[returned_value_is_what_was_stored_for_this_registration]: resolving the plain field of a result object
// that also has a later group field of the same type yields the plain field's value.
func TestReplay_ResultObjectPlainFieldNextToGroupField(t *testing.T) {
	for _, lt := range []Lifetime{Scoped, Transient} {
		c := NewCollection()
		ctor := func() rbPickOut { return rbPickOut{Plain: &rbPick{"plain"}, Grouped: &rbPick{"grouped"}} }
		var err error
		if lt == Scoped {
			err = c.AddScoped(ctor)
		} else {
			err = c.AddTransient(ctor)
		}
		if err != nil {
			t.Fatal(err)
		}
		p, err := c.Build()
		if err != nil {
			t.Fatal(err)
		}
		sc, _ := p.CreateScope(context.Background())
		v, err := Resolve[*rbPick](sc)
		if err != nil || v == nil || v.tag != "plain" {
			t.Errorf("REPLAY-CONFIRMED scope.createInstance#assert[returned_value_is_what_was_stored_for_this_registration]: %v: resolving the plain field gave %v (err %v), want the plain field's value", lt, v, err)
		}
		sc.Close()
		p.Close()
	}
}

type rbOrphan struct{ closed int }

func (o *rbOrphan) Close() error { o.closed++; return nil }

type rbKept struct{}

// scope.createInstance#post[unstored_outputs_are_still_owned]: an output whose registration was removed is not resolvable any more, but
// the constructor still produces it: it has to be disposed with its owner like every other instance the container created.
func TestReplay_RemovedOutputIsStillDisposed(t *testing.T) {
	for _, lt := range []Lifetime{Scoped, Singleton} {
		var made *rbOrphan
		c := NewCollection()
		ctor := func() (*rbKept, *rbOrphan) { made = &rbOrphan{}; return &rbKept{}, made }
		var err error
		if lt == Scoped {
			err = c.AddScoped(ctor)
		} else {
			err = c.AddSingleton(ctor)
		}
		if err != nil {
			t.Fatal(err)
		}
		c.Remove(reflect.TypeOf((*rbOrphan)(nil)))
		p, err := c.Build()
		if err != nil {
			t.Fatal(err)
		}
		sc, _ := p.CreateScope(context.Background())
		if _, err := Resolve[*rbKept](sc); err != nil {
			t.Fatal(err)
		}
		sc.Close()
		p.Close()
		if made == nil || made.closed != 1 {
			n := -1
			if made != nil {
				n = made.closed
			}
			t.Errorf("REPLAY-CONFIRMED scope.createInstance#post[unstored_outputs_are_still_owned]: %v: the output whose registration was removed was closed %d times after scope and provider were closed, want 1", lt, n)
		}
	}
}

type rbNG struct{ n int }
type rbNGUser struct{ t *rbNG }
type rbNGOut struct {
	Out
	X *rbNG `name:"x" group:"g"`
}
type rbNGIn struct {
	In
	X *rbNG `name:"x"`
}

// collection.registerDescriptor#post[keyed_registration_has_no_group]: a result-object field tagged with both a name and a group was
// stored as the keyed service {T,"x"} while its graph node and its instance key were {T,"x","g"}: consumers look {T,"x"} up under
// {T,"x",""}, so a cycle through it escaped Build (resolution then recursed until the stack overflowed) and a singleton registered
// this way was never found. Rejecting the registration is a correct outcome as well.
func TestReplay_ResultFieldWithNameAndGroup(t *testing.T) {
	c := NewCollection()
	if err := c.AddScoped(func(u *rbNGUser) rbNGOut { return rbNGOut{X: &rbNG{}} }); err == nil {
		if err := c.AddScoped(func(in rbNGIn) *rbNGUser { return &rbNGUser{t: in.X} }); err != nil {
			t.Fatal(err)
		}
		p, err := c.Build()
		var ce *CircularDependencyError
		if !errors.As(err, &ce) {
			t.Errorf("REPLAY-CONFIRMED collection.registerDescriptor#post[keyed_registration_has_no_group]: {*rbNG,x} -> *rbNGUser -> {*rbNG,x} is a dependency cycle, Build returned %v", err)
		}
		if p != nil {
			p.Close()
		}
	}
	c = NewCollection()
	if err := c.AddSingleton(func() rbNGOut { return rbNGOut{X: &rbNG{n: 1}} }); err == nil {
		p, err := c.Build()
		if err != nil {
			t.Fatal(err)
		}
		if _, err := p.GetKeyed(reflect.TypeOf(&rbNG{}), "x"); err != nil {
			t.Errorf("REPLAY-CONFIRMED collection.registerDescriptor#post[keyed_registration_has_no_group]: a keyed singleton accepted by the collection cannot be resolved after a successful Build: %v", err)
		}
		p.Close()
	}
}

type rbNilI interface{ Foo() }
type rbNilA struct{ id int }
type rbNilOther struct{}
type rbNilGroupIn struct {
	In
	Is []rbNilI `group:"g"`
}
type rbNilConsumer struct{}

// scope.createInstance#post[no_nil_output_is_stored]: a multi-return constructor that returns a nil interface value for one of its
// outputs. As a singleton the nil was silently not stored, so Build ran the constructor a second time for "the missing" output; as a
// group member the nil was handed to reflect.Value.Set and the panic escaped Resolve. A nil output is rejected like a nil single
// return value (ValidationError), before anything is stored.
func TestReplay_NilOutputOfMultiReturnConstructor(t *testing.T) {
	for i := 0; i < 40; i++ {
		calls := 0
		c := NewCollection()
		if err := c.AddSingleton(func() (*rbNilA, rbNilI) { calls++; return &rbNilA{id: calls}, nil }); err != nil {
			t.Fatal(err)
		}
		p, err := c.Build()
		if err == nil {
			p.Close()
		}
		if calls != 1 {
			t.Errorf("REPLAY-CONFIRMED scope.createInstance#post[no_nil_output_is_stored]: Build (err=%v) ran the singleton constructor %d times", err, calls)
			break
		}
	}
	c := NewCollection()
	if err := c.AddScoped(func() (rbNilI, *rbNilOther) { return nil, &rbNilOther{} }, Group("g")); err != nil {
		t.Fatal(err)
	}
	if err := c.AddScoped(func(in rbNilGroupIn) *rbNilConsumer { return &rbNilConsumer{} }); err != nil {
		t.Fatal(err)
	}
	p, err := c.Build()
	if err != nil {
		return
	}
	defer p.Close()
	func() {
		defer func() {
			if r := recover(); r != nil {
				t.Errorf("REPLAY-CONFIRMED scope.createInstance#post[no_nil_output_is_stored]: Resolve panicked instead of returning an error: %v", r)
			}
		}()
		if _, err := Resolve[*rbNilConsumer](p); err == nil {
			t.Errorf("REPLAY-CONFIRMED scope.createInstance#post[no_nil_output_is_stored]: a consumer of a group with a nil member was constructed")
		}
	}()
}

type rbGreeter interface{ Hello() string }
type rbValImpl struct{ n int }   // only *rbValImpl implements rbGreeter
func (*rbValImpl) Hello() string { return "hi" }

type rbGreeterIn struct {
	In
	G rbGreeter
}
type rbGreeterUser struct{ g rbGreeter }

// collection.addService#assert[alias_is_implemented_by_the_registered_type]: As[I] accepted a value type T when only *T implements I. The
// T value stored under the alias is not an I: Resolve[I] failed with a type mismatch, a plain parameter of type I made the consumer's
// constructor "panic" inside reflect.Call, and through a parameter object the reflect panic escaped Resolve and Build.
func TestReplay_AliasOfTypeThatDoesNotImplementIt(t *testing.T) {
	c := NewCollection()
	if err := c.AddSingleton(func() rbValImpl { return rbValImpl{7} }, As[rbGreeter]()); err != nil {
		return // rejecting the registration is the correct outcome
	}
	if err := c.AddScoped(func(in rbGreeterIn) *rbGreeterUser { return &rbGreeterUser{in.G} }); err != nil {
		t.Fatal(err)
	}
	func() {
		defer func() {
			if r := recover(); r != nil {
				t.Errorf("REPLAY-CONFIRMED collection.addService#assert[alias_is_implemented_by_the_registered_type]: panic escaped: %v", r)
			}
		}()
		p, err := c.Build()
		if err != nil {
			t.Errorf("REPLAY-CONFIRMED collection.addService#assert[alias_is_implemented_by_the_registered_type]: the alias registration was accepted, Build failed: %v", err)
			return
		}
		defer p.Close()
		if _, err := Resolve[rbGreeter](p); err != nil {
			t.Errorf("REPLAY-CONFIRMED collection.addService#assert[alias_is_implemented_by_the_registered_type]: a service registered under the alias rbGreeter is not resolvable as rbGreeter: %v", err)
		}
		if _, err := Resolve[*rbGreeterUser](p); err != nil {
			t.Errorf("REPLAY-CONFIRMED collection.addService#assert[alias_is_implemented_by_the_registered_type]: the alias cannot be injected: %v", err)
		}
	}()
}

type rbAsImpl struct{}

func (*rbAsImpl) Hello() string { return "impl" }

type rbAsOther struct{}
type rbAsOut struct {
	Out
	Impl *rbAsImpl
}

// collection.addService#assert[aliases_are_not_silently_dropped]: As[I] given to a constructor with several outputs (multiple return values
// or a result object) was accepted and ignored: I was not resolvable and the concrete type was, although a registration made with As is
// resolvable under the alias and not under the value's own type. Rejecting the registration is the correct outcome.
func TestReplay_AliasWithSeveralOutputs(t *testing.T) {
	for name, ctor := range map[string]any{
		"multi-return":  func() (*rbAsImpl, *rbAsOther) { return &rbAsImpl{}, &rbAsOther{} },
		"result-object": func() rbAsOut { return rbAsOut{Impl: &rbAsImpl{}} },
	} {
		c := NewCollection()
		if err := c.AddSingleton(ctor, As[rbGreeter]()); err != nil {
			continue
		}
		p, err := c.Build()
		if err != nil {
			t.Fatal(err)
		}
		if _, err := Resolve[rbGreeter](p); err != nil {
			t.Errorf("REPLAY-CONFIRMED collection.addService#assert[aliases_are_not_silently_dropped]: %s registered with As[rbGreeter] was accepted, but rbGreeter is not resolvable: %v", name, err)
		}
		p.Close()
	}
}

type rbVarOpt struct{ v int }
type rbVarSvc struct{ opts []*rbVarOpt }

// reflection.ConstructorInvoker.invokeWithRecovery#assert[variadic_functions_are_called_with_their_slice]: a variadic constructor
// func(opts ...*T) is analysed as depending on []*T, and the resolved slice was then passed to reflect.Value.Call as a single argument:
// reflect panicked before the constructor ran, so a registration set in which every dependency is registered could not be built.
func TestReplay_VariadicConstructor(t *testing.T) {
	c := NewCollection()
	if err := c.AddSingleton(func() []*rbVarOpt { return []*rbVarOpt{{1}, {2}} }); err != nil {
		t.Fatal(err)
	}
	ran := false
	if err := c.AddSingleton(func(opts ...*rbVarOpt) *rbVarSvc { ran = true; return &rbVarSvc{opts: opts} }); err != nil {
		return // refusing variadic constructors at registration would be consistent too
	}
	p, err := c.Build()
	if err != nil {
		t.Errorf("REPLAY-CONFIRMED ConstructorInvoker.invokeWithRecovery#assert[variadic_functions_are_called_with_their_slice]: every dependency is registered, constructor ran=%v, Build failed: %v", ran, err)
		return
	}
	defer p.Close()
	if svc, err := Resolve[*rbVarSvc](p); err != nil || len(svc.opts) != 2 {
		t.Errorf("REPLAY-CONFIRMED ConstructorInvoker.invokeWithRecovery#assert[variadic_functions_are_called_with_their_slice]: wrong wiring: %v %v", svc, err)
	}
}

type rbNFA struct{ id int }
type rbNFB struct{}
type rbNFOut struct {
	Out
	A *rbNFA
	B *rbNFB // left nil by the constructor
}

// scope.createInstance#assert[requested_field_missing_stores_nothing]: a scoped result object that leaves one field nil. The nil field is never
// cached, so resolving its type ran the constructor again, stored the new sibling over the one the scope already held, and only then
// failed with 'result object produced no services': one scope handed out two instances of the sibling.
func TestReplay_ScopedResultObjectWithNilField(t *testing.T) {
	calls := 0
	c := NewCollection()
	c.AddScoped(func() rbNFOut { calls++; return rbNFOut{A: &rbNFA{id: calls}} })
	p, err := c.Build()
	if err != nil {
		t.Fatal(err)
	}
	defer p.Close()
	sc, _ := p.CreateScope(context.Background())
	defer sc.Close()
	a1, err := Resolve[*rbNFA](sc)
	if err != nil {
		t.Fatal(err)
	}
	if _, err := Resolve[*rbNFB](sc); err == nil {
		t.Errorf("resolving the nil field succeeded")
	}
	a2, err := Resolve[*rbNFA](sc)
	if err != nil {
		t.Fatal(err)
	}
	if a1 != a2 {
		t.Errorf("REPLAY-CONFIRMED scope.createInstance#assert[requested_field_missing_stores_nothing]: one scope returned two instances of *rbNFA (ids %d and %d); the constructor ran %d times", a1.id, a2.id, calls)
	}
}

type rbTwiceI interface{ Hello() string }
type rbTwice struct{ closes int }

func (d *rbTwice) Close() error { d.closes++; return nil }
func (*rbTwice) Hello() string  { return "hi" }

type rbTwiceOut struct {
	Out
	DB    *rbTwice
	Iface rbTwiceI
}

// scope.createInstance#assert[an_object_is_tracked_once_per_invocation]: one object returned under two outputs of one constructor - its
// concrete type and an interface it implements, the usual use of multiple return values and result objects - was handed to the
// disposal tracking once per output and closed twice, for every lifetime.
func TestReplay_SameObjectUnderTwoOutputsIsClosedOnce(t *testing.T) {
	for _, form := range []string{"multi-return", "result-object"} {
		for _, lt := range []Lifetime{Singleton, Scoped, Transient} {
			db := &rbTwice{}
			var ctor any = func() (*rbTwice, rbTwiceI) { return db, db }
			if form == "result-object" {
				ctor = func() rbTwiceOut { return rbTwiceOut{DB: db, Iface: db} }
			}
			c := NewCollection()
			var err error
			switch lt {
			case Singleton:
				err = c.AddSingleton(ctor)
			case Scoped:
				err = c.AddScoped(ctor)
			default:
				err = c.AddTransient(ctor)
			}
			if err != nil {
				t.Fatal(err)
			}
			p, err := c.Build()
			if err != nil {
				t.Fatal(err)
			}
			sc, _ := p.CreateScope(context.Background())
			if _, err := Resolve[*rbTwice](sc); err != nil {
				t.Fatal(err)
			}
			if i, err := Resolve[rbTwiceI](sc); err != nil || (lt != Transient && i != rbTwiceI(db)) {
				t.Errorf("the object is not resolvable under its second output: %v %v", i, err)
			}
			sc.Close()
			p.Close()
			want := 1
			if lt == Transient {
				want = 2 // two resolutions, two invocations, each tracks the object once
			}
			if db.closes != want {
				t.Errorf("REPLAY-CONFIRMED scope.createInstance#assert[an_object_is_tracked_once_per_invocation]: %s/%v: the object was closed %d times, want %d", form, lt, db.closes, want)
			}
		}
	}
}

type rbOwnI interface{ Name() string }
type rbOwnRes struct{ closes int }

func (r *rbOwnRes) Close() error { r.closes++; return nil }

type rbOwnOther struct{}
type rbOwnOut struct {
	Out
	Res     *rbOwnRes
	Closer  Disposable
	Missing *rbOwnOther // left nil
}

// scope.createInstance#assert[rejected_outputs_stay_owned]: a multi-return constructor returns (&Res{}, nil). The nil output is rejected
// (see TestReplay_NilOutputOfMultiReturnConstructor), but the *Res the container has just created must still be closed exactly once:
// the first version of that repair returned before anything was stored OR tracked, so the instance was never closed.
// scope.trackUnstored / the removed-registration branch: one object under two outputs is tracked once on these paths as well.
func TestReplay_OutputsOfARejectedOrUnstoredInvocationAreClosedOnce(t *testing.T) {
	for _, lt := range []Lifetime{Singleton, Scoped, Transient} {
		add := func(c Collection, ctor any) error {
			switch lt {
			case Singleton:
				return c.AddSingleton(ctor)
			case Scoped:
				return c.AddScoped(ctor)
			}
			return c.AddTransient(ctor)
		}
		// (1) nil output next to a disposable one
		var made []*rbOwnRes
		c := NewCollection()
		if err := add(c, func() (*rbOwnRes, rbOwnI) { r := &rbOwnRes{}; made = append(made, r); return r, nil }); err != nil {
			t.Fatal(err)
		}
		p, err := c.Build()
		if err == nil {
			sc, _ := p.CreateScope(context.Background())
			Resolve[*rbOwnRes](sc)
			sc.Close()
			p.Close()
		}
		for i, r := range made {
			if r.closes != 1 {
				t.Errorf("REPLAY-CONFIRMED scope.createInstance#assert[rejected_outputs_stay_owned]: %v: instance %d created by an invocation that was rejected for a nil output was closed %d times, want 1", lt, i, r.closes)
			}
		}
		// (2) result object: one object under two fields, the requested third field nil
		made = nil
		c = NewCollection()
		if err := add(c, func() rbOwnOut { r := &rbOwnRes{}; made = append(made, r); return rbOwnOut{Res: r, Closer: r} }); err != nil {
			t.Fatal(err)
		}
		p, err = c.Build()
		if err == nil {
			sc, _ := p.CreateScope(context.Background())
			Resolve[*rbOwnOther](sc)
			sc.Close()
			p.Close()
		}
		for i, r := range made {
			if r.closes != 1 {
				t.Errorf("REPLAY-CONFIRMED scope.trackUnstored#post[an_object_is_tracked_once_per_invocation]: %v: instance %d of an invocation whose requested field was nil was closed %d times, want 1", lt, i, r.closes)
			}
		}
		// (3) one object under two outputs, one of the two registrations removed before Build
		made = nil
		c = NewCollection()
		if err := add(c, func() (*rbOwnRes, Disposable) { r := &rbOwnRes{}; made = append(made, r); return r, r }); err != nil {
			t.Fatal(err)
		}
		c.Remove(reflect.TypeOf((*Disposable)(nil)).Elem())
		p, err = c.Build()
		if err != nil {
			t.Fatal(err)
		}
		sc, _ := p.CreateScope(context.Background())
		if _, err := Resolve[*rbOwnRes](sc); err != nil {
			t.Fatal(err)
		}
		sc.Close()
		p.Close()
		for i, r := range made {
			if r.closes != 1 {
				t.Errorf("REPLAY-CONFIRMED scope.trackOutput#assert[an_object_is_tracked_once_per_invocation]: %v: instance %d returned under a kept and a removed output was closed %d times, want 1", lt, i, r.closes)
			}
		}
	}
}
