package godi

// Replay family "open-findings": scenarios of the OPEN known findings (known_findings.json). They fail on the current tree by
// design and are kept apart from the other families so that those stay green.

import (
	"context"
	"errors"
	"testing"
)

type rbFlaky struct{ n int }
type rbFlakyIn struct {
	In
	Dep *rbFlaky `optional:"true"`
}
type rbWantsFlaky struct{ dep *rbFlaky }

// reflection.ParamObjectBuilder.BuildParamObject#post[swallowed_failures_are_only_not_found]: an optional field stays zero when nothing
// is registered for it; a REGISTERED dependency whose construction fails is a failure, not an absent service.
func TestReplay_OptionalFieldSwallowsConstructionFailure(t *testing.T) {
	c := NewCollection()
	boom := errors.New("boom")
	if err := c.AddScoped(func() (*rbFlaky, error) { return nil, boom }); err != nil {
		t.Fatal(err)
	}
	if err := c.AddScoped(func(in rbFlakyIn) *rbWantsFlaky { return &rbWantsFlaky{dep: in.Dep} }); err != nil {
		t.Fatal(err)
	}
	p, err := c.Build()
	if err != nil {
		t.Fatal(err)
	}
	defer p.Close()
	sc, _ := p.CreateScope(context.Background())
	defer sc.Close()
	w, err := Resolve[*rbWantsFlaky](sc)
	if err == nil {
		t.Errorf("REPLAY-CONFIRMED ParamObjectBuilder.BuildParamObject#post[swallowed_failures_are_only_not_found]: the registered optional dependency failed to construct (%v) and the consumer was built anyway with a nil field (dep=%v, err=nil)", boom, w.dep)
	} else if !errors.Is(err, boom) {
		t.Errorf("REPLAY-CONFIRMED ParamObjectBuilder.BuildParamObject#post[swallowed_failures_are_only_not_found]: failure reported without its cause: %v", err)
	}
}
