package godi

// Replay family "open-findings": scenarios of the OPEN known findings (known_findings.json). They fail on the current tree by
// design and are kept apart from the other families so that those stay green.

import (
	"context"
	"errors"
	"sync/atomic"
	"testing"
)

type rbFlaky struct{ n int }
type rbFlakyIn struct {
	In
	Dep *rbFlaky `optional:"true"`
}
type rbWantsFlaky struct{ dep *rbFlaky }

// reflection.ParamObjectBuilder.BuildParamObject#post[swallowed_failures_are_only_not_found]: an optional field stays zero when nothing
// is registered for it; a REGISTERED dependency whose construction fails is a failure, not an absent service.
func TestReplay_OptionalFieldSwallowsConstructionFailure(t *testing.T) {
	c := NewCollection()
	boom := errors.New("boom")
	if err := c.AddScoped(func() (*rbFlaky, error) { return nil, boom }); err != nil {
		t.Fatal(err)
	}
	if err := c.AddScoped(func(in rbFlakyIn) *rbWantsFlaky { return &rbWantsFlaky{dep: in.Dep} }); err != nil {
		t.Fatal(err)
	}
	p, err := c.Build()
	if err != nil {
		t.Fatal(err)
	}
	defer p.Close()
	sc, _ := p.CreateScope(context.Background())
	defer sc.Close()
	w, err := Resolve[*rbWantsFlaky](sc)
	if err == nil {
		t.Errorf("REPLAY-CONFIRMED ParamObjectBuilder.BuildParamObject#post[swallowed_failures_are_only_not_found]: the registered optional dependency failed to construct (%v) and the consumer was built anyway with a nil field (dep=%v, err=nil)", boom, w.dep)
	} else if !errors.Is(err, boom) {
		t.Errorf("REPLAY-CONFIRMED ParamObjectBuilder.BuildParamObject#post[swallowed_failures_are_only_not_found]: failure reported without its cause: %v", err)
	}
}

// ---- open findings without an obligation of their own: one concrete input each (index.json: kind "bounded", one entry per test) ----

type ofDB struct{ closes int32 }

func (d *ofDB) Close() error { atomic.AddInt32(&d.closes, 1); return nil }

type ofCfg struct{}
type ofStore struct{ cfg *ofCfg }
type ofManager struct{ st *ofStore }

// C06: a singleton constructor that resolves another singleton through the injected Provider (the pattern of
// docs/features/keyed-services.md) has a dependency the graph does not know: whether Build succeeds depends on where Kahn's
// queue, seeded from a map range, happens to place it.
func TestOpen_BuildVerdictDependsOnIterationOrder(t *testing.T) {
	ok, failed := 0, 0
	for i := 0; i < 200; i++ {
		c := NewCollection()
		c.AddSingleton(func() *ofCfg { return &ofCfg{} })
		c.AddSingleton(func(cfg *ofCfg) *ofStore { return &ofStore{cfg: cfg} }, Name("primary"))
		c.AddSingleton(func(p Provider) (*ofManager, error) {
			st, err := ResolveKeyed[*ofStore](p, "primary")
			if err != nil {
				return nil, err
			}
			return &ofManager{st: st}, nil
		})
		p, err := c.Build()
		if err != nil {
			failed++
			continue
		}
		ok++
		p.Close()
	}
	if ok != 0 && failed != 0 {
		t.Errorf("REPLAY-CONFIRMED open[build_verdict_depends_on_iteration_order]: the same registrations built %d times and failed %d times out of 200", ok, failed)
	}
}

type ofLog struct{ events []string }
type ofTransDep struct{ log *ofLog }
type ofSingleUser struct {
	log *ofLog
	dep *ofTransDep
}

func (d *ofTransDep) Close() error { d.log.events = append(d.log.events, "transient-dep"); return nil }
func (u *ofSingleUser) Close() error {
	u.log.events = append(u.log.events, "singleton-user")
	return nil
}

// C11: a transient that a singleton received as a dependency is owned by the root scope, which provider.Close closes before the
// singletons: the dependency is closed while the singleton holding it is still open.
func TestOpen_TransientDependencyOfASingletonIsClosedFirst(t *testing.T) {
	log := &ofLog{}
	c := NewCollection()
	c.AddTransient(func() *ofTransDep { return &ofTransDep{log: log} })
	c.AddSingleton(func(d *ofTransDep) *ofSingleUser { return &ofSingleUser{log: log, dep: d} })
	p, err := c.Build()
	if err != nil {
		t.Fatal(err)
	}
	if err := p.Close(); err != nil {
		t.Fatal(err)
	}
	if len(log.events) != 2 || log.events[0] != "singleton-user" {
		t.Errorf("REPLAY-CONFIRMED open[transient_dependency_of_a_singleton_closed_first]: close order %v: the dependency was closed while the singleton that received it was still open", log.events)
	}
}

// C10: provider.Close overlapping Build (a singleton constructor that receives the Provider and closes it, e.g. through a shutdown
// hook): the singleton under construction is appended to a list nobody drains any more and is never closed; when it is the last
// singleton Build returns the closed provider with a nil error.
func TestOpen_ProviderClosedDuringBuildLeaksTheSingleton(t *testing.T) {
	var created *ofDB
	c := NewCollection()
	c.AddSingleton(func(p Provider) *ofDB { p.Close(); created = &ofDB{}; return created })
	p, err := c.Build()
	closedProvider := false
	if err == nil {
		if _, gerr := p.Get(scopeType); errors.Is(gerr, ErrProviderDisposed) {
			closedProvider = true
		}
		p.Close()
	}
	if n := atomic.LoadInt32(&created.closes); n != 1 || closedProvider {
		t.Errorf("REPLAY-CONFIRMED open[provider_closed_during_build]: the singleton whose construction overlapped Close was closed %d times (want 1); Build returned an already closed provider with a nil error: %v", n, closedProvider)
	}
}
