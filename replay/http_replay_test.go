package http

// Replay family "middleware/http": requests against the real net/http integration.

import (
	"net/http"
	"net/http/httptest"
	"testing"

	"github.com/junioryono/godi/v4"
)

// http.WithErrorHandler$1#post[a_nil_handler_keeps_the_default]: WithErrorHandler(nil) stored nil although the Config comment promises the default handler for nil: the first request whose scope
// cannot be created calls a nil function and the middleware panics (same in chi, gin, echo and fiber, and for the other With*Handler options).
func TestReplay_NilErrorHandlerKeepsTheDefault(t *testing.T) {
	p, err := godi.NewCollection().Build()
	if err != nil {
		t.Fatal(err)
	}
	p.Close() // every scope creation fails from now on
	h := ScopeMiddleware(p, WithErrorHandler(nil))(http.HandlerFunc(func(w http.ResponseWriter, r *http.Request) {}))
	defer func() {
		if r := recover(); r != nil {
			t.Errorf("REPLAY-CONFIRMED http.WithErrorHandler$1#post[a_nil_handler_keeps_the_default]: the middleware panicked on a request whose scope could not be created: %v", r)
		}
	}()
	h.ServeHTTP(httptest.NewRecorder(), httptest.NewRequest("GET", "/", nil))
}
