package fiber

// Replay family "middleware/fiber": requests against the real fiber integration.

import (
	"net/http/httptest"
	"sync/atomic"
	"testing"
	"time"

	"github.com/gofiber/fiber/v2"
	"github.com/junioryono/godi/v4"
)

type rfRes struct{ closed int32 }

func (r *rfRes) Close() error { atomic.AddInt32(&r.closed, 1); return nil }

// fiber.ScopeMiddleware$1#panicpost[scope_closed_exactly_once_on_panic]: the scope of a request whose handler panics is closed exactly once,
// like on every other exit path. The fiber middleware closed the scope in straight-line code after c.Next(): with a recover middleware in
// front (the documented setup) that line is never reached. A scope that is still the value stored in the request locals happens to be
// closed by fasthttp when the request context is released; any other scope - here the one created by the app-level middleware when a
// group installs the middleware again - was left open until the provider is closed.
func TestReplay_ScopeClosedWhenTheHandlerPanics(t *testing.T) {
	for _, panics := range []bool{false, true} {
		col := godi.NewCollection()
		if err := col.AddScoped(func() *rfRes { return &rfRes{} }); err != nil {
			t.Fatal(err)
		}
		p, err := col.Build()
		if err != nil {
			t.Fatal(err)
		}
		var rs []*rfRes
		var scopes []godi.Scope
		mw := WithMiddleware(func(s godi.Scope, c *fiber.Ctx) error {
			scopes = append(scopes, s)
			rs = append(rs, godi.MustResolve[*rfRes](s))
			return nil
		})
		app := fiber.New()
		app.Use(func(c *fiber.Ctx) (err error) { // outer recovery middleware
			defer func() {
				if r := recover(); r != nil {
					err = fiber.ErrInternalServerError
				}
			}()
			return c.Next()
		})
		app.Use(ScopeMiddleware(p, mw))
		grp := app.Group("/g", ScopeMiddleware(p, mw))
		grp.Get("/", func(c *fiber.Ctx) error {
			if panics {
				panic("boom")
			}
			return nil
		})
		if _, err := app.Test(httptest.NewRequest("GET", "/g/", nil)); err != nil {
			t.Fatal(err)
		}
		time.Sleep(30 * time.Millisecond)
		if len(rs) != 2 {
			t.Fatalf("expected two scopes, got %d", len(rs))
		}
		for i, r := range rs {
			if n := atomic.LoadInt32(&r.closed); n != 1 {
				t.Errorf("REPLAY-CONFIRMED fiber.ScopeMiddleware$1#panicpost[scope_closed_exactly_once_on_panic]: handler panics=%v: the scoped instance of scope %d (0 = app level, 1 = group level) was closed %d times when the request ended, want 1", panics, i, n)
			}
		}
		p.Close()
	}
}
