package graph

// Open known finding (C19), one concrete input: see known_findings.json.

import (
	"reflect"
	"testing"
	"time"

	"github.com/junioryono/godi/v4/internal/reflection"
)

type ofgA struct{}
type ofgB struct{}
type ofgC struct{}
type ofgProv struct {
	t    reflect.Type
	deps []reflect.Type
}

func (p *ofgProv) GetType() reflect.Type { return p.t }
func (p *ofgProv) GetKey() any           { return nil }
func (p *ofgProv) GetGroup() string      { return "" }
func (p *ofgProv) GetDependencies() []*reflection.Dependency {
	var ds []*reflection.Dependency
	for i, d := range p.deps {
		ds = append(ds, &reflection.Dependency{Type: d, Index: i})
	}
	return ds
}

// C19: on a graph with a cycle that is reachable from a node without dependencies (such graphs exist after deferred adds: DetectCycles
// reports the cycle, it does not remove it) CalculateDepths relaxes for ever - holding the write lock, so every other query blocks too.
func TestOpen_CalculateDepthsOnACyclicGraph(t *testing.T) {
	a, b, c := reflect.TypeOf(ofgA{}), reflect.TypeOf(ofgB{}), reflect.TypeOf(ofgC{})
	g := NewDependencyGraph()
	g.AddProviderDeferred(&ofgProv{t: c})
	g.AddProviderDeferred(&ofgProv{t: a, deps: []reflect.Type{b}})
	g.AddProviderDeferred(&ofgProv{t: b, deps: []reflect.Type{a, c}})
	if g.DetectCycles() == nil {
		t.Fatal("expected a cycle")
	}
	done := make(chan struct{})
	go func() { g.CalculateDepths(); close(done) }()
	select {
	case <-done:
	case <-time.After(2 * time.Second):
		t.Errorf("REPLAY-CONFIRMED open[calculate_depths_on_a_cyclic_graph]: CalculateDepths did not return within 2s on the cyclic graph a->b, b->a, b->c")
	}
}
