#!/bin/bash
# usage: tools/refresh_ledger.sh [props...]  -- re-runs each property; refuses to rewrite a ledger when anything other than
# "missing"/new obligations differs (a real failure must never be dropped from the ledger silently)
cd /verif
props=${@:-C01 C02 C03 C04 C05 C06 C07 C08 C09 C10 C11 C12 C13 C14 C15 C16 C17 C18 C19 C20}
for p in $props; do
  out=$(bin/govc check -prop $p -repo /repo 2>&1)
  bad=$(echo "$out" | grep '^FAILED' | grep -v '\[missing\]')
  und=$(echo "$out" | grep -o 'undecided=[0-9]*' | tail -1)
  if [ -n "$bad" ] || [ "$und" != "undecided=0" ]; then echo "$p: NOT refreshed: $und"; echo "$bad" | cut -c1-200; continue; fi
  bin/govc check -prop $p -repo /repo -update-ledger 2>&1 | tail -1
done
