#!/usr/bin/env python3
# Regenerates /verif/MANIFEST.json from the property list and the per-property notes below.
import json, subprocess
props = {json.loads(l)['id']: json.loads(l) for l in open('/verif/properties.jsonl')}
hooks = subprocess.run(['git', '-C', '/repo', 'log', '--format=%h %s'], capture_output=True, text=True).stdout.splitlines()
hook_commits = [l.split()[0] for l in hooks if ' verif:' in ' ' + l.split(' ', 1)[1] or l.split(' ', 1)[1].startswith('verif:')]
notes = json.load(open('/verif/tools/manifest_notes.json'))
checks = []
na = []
for pid in sorted(props):
    n = notes.get(pid)
    if not n or n.get('not_applicable'):
        na.append({"property_id": pid, "reason": (n or {}).get('not_applicable', 'check not built yet')})
        continue
    checks.append({
        "property_id": pid,
        "quick_cmd": f"./check.sh {pid} quick",
        "thorough_cmd": f"./check.sh {pid} thorough",
        "evidence_file": f"/verif/evidence/{pid}.json",
        "replay_cmd_template": "./replay.sh {path}",
        "engine": "govc",
        "level_claimed": {"category": "proof", "text": n['text'], "design_ref": n.get('design_ref', 'DESIGN.md section 4')},
        "level_note": n['note'],
        "technique": "contract-based deductive verification: weakest-precondition style VC generation over the typed Go AST of /repo (contracts in build-tag-guarded comment files), one SMT obligation per contract clause, discharged by z3 4.8.12 / z3 5.1.0 / cvc5 1.0",
    })
m = {
    "version": 1,
    "setup_cmd": "./setup.sh",
    "hooks": {
        "guard": "verif",
        "enable": "contracts live in comment-only files zz_contracts_verif.go (//go:build verif) inside the /repo packages; govc loads /repo with -tags verif",
        "baseline_off_cmd": "cd /repo && for m in . chi echo fiber gin http; do (cd $m && GOFLAGS=-mod=mod GOPROXY=off go test -vet=off -count=1 ./...) || exit 1; done",
        "source_commits": hook_commits,
        "add_only": True,
    },
    "engines": [{"name": "govc", "path": "/verif/govc", "serves_properties": [c['property_id'] for c in checks],
                 "kind_free_text": "VC generator for Go written for this task (go/packages + go/ast + go/types): symbolic execution with state merging, loop invariants, modular calls against contracts, per-frame call traces, lock/monitor rule for concurrent units; SMT-LIB queries raced on three solvers"}],
    "checks": checks,
    "notes": "Every check rebuilds its obligations from /repo's working tree. Ledger of obligations discharged on the unchanged tree: obligations.lock.json. Known findings / fixes: known_findings.json. See DESIGN.md.",
    "not_applicable": na,
}
json.dump(m, open('/verif/MANIFEST.json', 'w'), indent=1)
print(len(checks), 'checks,', len(na), 'not applicable')
