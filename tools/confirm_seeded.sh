#!/bin/bash
# usage: tools/confirm_seeded.sh <name> <prop> <patch> <demo file> <demo dir relative to repo root> <needs text>
# Confirms in a scratch worktree: suite passes with the change, demo fails with it, demo passes without it.
set -u
name=$1; prop=$2; patch=$3; demo=$4; ddir=$5; needs=$6
wt=/tmp/wt-confirm-$$
export GOFLAGS=-mod=mod GOPROXY=off
git -C /repo worktree add -f --detach $wt HEAD >/dev/null 2>&1 || exit 2
cleanup() { git -C /repo worktree remove --force $wt >/dev/null 2>&1; }
trap cleanup EXIT
cd $wt
git apply $patch || { echo "$name: patch does not apply"; exit 3; }
suite=pass
for m in . http chi gin echo fiber; do (cd $m && go test -vet=off -count=1 ./... >/dev/null 2>&1) || suite=FAIL; done
cp $demo $wt/$ddir/zz_demo_seed_test.go
moddir=$wt; case $ddir in chi*|echo*|gin*|fiber*|http*) moddir=$wt/${ddir%%/*};; esac
pkg=./${ddir#*/}; [ "$moddir" = "$wt" ] && pkg=./$ddir; [ "$ddir" = "." ] && pkg=.
case $ddir in chi|echo|gin|fiber|http) pkg=. ;; esac
with=$( (cd $moddir && go test -vet=off -count=1 -timeout 120s $pkg >/dev/null 2>&1) && echo pass || echo fail)
git checkout -q -- . ; 
without=$( (cd $moddir && go test -vet=off -count=1 -timeout 120s $pkg >/dev/null 2>&1) && echo pass || echo fail)
echo "$name: suite_with_change=$suite demo_with_change=$with demo_without_change=$without"
if [ "$suite" = pass ] && [ "$with" = fail ] && [ "$without" = pass ]; then
  d=/verif/seeded/$name; mkdir -p $d
  cp $patch $d/patch.diff; cp $demo $d/$(basename $demo)
  python3 - "$d" "$name" "$prop" "$ddir" "$(basename $demo)" "$needs" <<'PY'
import json,sys
d,name,prop,ddir,demo,needs=sys.argv[1:7]
json.dump({"name":name,"breaks_property":prop,"demo_file":demo,"demo_package_dir":ddir,"needs_to_manifest":needs,
 "confirmed":{"existing_suite_with_change":"pass (root module + http, chi, gin, echo, fiber)","demo_with_change":"fail","demo_without_change":"pass",
 "how":"tools/confirm_seeded.sh in a scratch worktree of /repo HEAD (removed afterwards)"}},open(d+"/meta.json","w"),indent=1)
PY
  exit 0
fi
exit 1
