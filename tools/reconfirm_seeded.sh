#!/bin/bash
# usage: tools/reconfirm_seeded.sh [glob]  -- for every kept seeded change: applies it to a scratch worktree of /repo HEAD and reports
# suite / demo with the change / demo without it. Writes nothing under /verif.
cd /verif
glob=${1:-*}
export GOFLAGS=-mod=mod GOPROXY=off
one() {
  d=$1; name=$(basename $d)
  read demo ddir <<<$(python3 -c "import json;m=json.load(open('$d/meta.json'));print(m['demo_file'],m['demo_package_dir'])")
  wt=/tmp/reconf/wt-$name; mkdir -p /tmp/reconf
  git -C /repo worktree add -f --detach $wt HEAD >/dev/null 2>&1 || { echo "$name: worktree failed"; return; }
  cd $wt
  if ! git apply $d/patch.diff 2>/dev/null; then echo "$name: patch does not apply"; cd /; git -C /repo worktree remove --force $wt; return; fi
  suite=pass
  for m in . http chi gin echo fiber; do (cd $m && go test -vet=off -count=1 ./... >/dev/null 2>&1) || suite=FAIL; done
  cp $d/$demo $wt/$ddir/zz_demo_seed_test.go
  moddir=$wt; pkg=./$ddir
  case $ddir in chi|echo|gin|fiber|http) moddir=$wt/$ddir; pkg=. ;; esac
  [ "$ddir" = "." ] && pkg=.
  with=$( (cd $moddir && go test -vet=off -count=1 -timeout 120s $pkg >/dev/null 2>&1) && echo pass || echo fail)
  git checkout -q -- . 
  without=$( (cd $moddir && go test -vet=off -count=1 -timeout 120s $pkg >/dev/null 2>&1) && echo pass || echo fail)
  ok=OK; { [ "$suite" = pass ] && [ "$with" = fail ] && [ "$without" = pass ]; } || ok=BROKEN
  echo "$ok $name: suite_with_change=$suite demo_with_change=$with demo_without_change=$without"
  cd /; git -C /repo worktree remove --force $wt >/dev/null 2>&1
}
export -f one
ls -d /verif/seeded/$glob/ | sed 's:/$::' | xargs -P 5 -I{} bash -c 'one {}'
rm -rf /tmp/reconf
