#!/bin/bash
# usage: tools/mutant.sh <patch.diff> <prop> [<prop>...]   -- apply a seeded change to /repo, run the checks, undo it.
set -u
patch=$1; shift
if [ -n "$(git -C /repo status --porcelain)" ]; then echo "REFUSING: /repo has uncommitted changes"; exit 2; fi
git -C /repo apply "$patch" || { echo "patch does not apply"; exit 2; }
rc=0
for p in "$@"; do
  out=$(cd /verif && ./check.sh "$p" quick 2>&1); r=$?
  echo "$out" | grep -E "^(VIOLATION|KNOWN-FINDING|FAILED|govc:)" | cut -c1-260
  [ $r -ne 0 ] && rc=1
done
git -C /repo checkout -- .
git -C /repo status --porcelain | grep -v '^??' >&2
exit $rc
