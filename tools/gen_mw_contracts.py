#!/usr/bin/env python3
# Writes the contract files of the five web integrations (they share one shape). The output is committed in /repo.
HEAD = '''//go:build verif

package {pkg}

// Contracts for govc (the VC generator under /verif). Comment-only: this file compiles to nothing
// with or without the "verif" build tag. Every line starting with //@ is contract text.
//
// Assumed contracts of the container and of the web framework as seen from the middleware (C16). Handlers, middlewares
// and error handlers are arbitrary user code: they may panic and may call back into the container.
//@ field Config.ErrorHandler immutable
//@ field Config.CloseErrorHandler immutable
//@ field Config.Middlewares immutable
//@ field HandlerConfig.PanicRecovery immutable
//@ field HandlerConfig.PanicHandler immutable
//@ field HandlerConfig.ScopeErrorHandler immutable
//@ field HandlerConfig.ResolutionErrorHandler immutable
//@ func godi.Provider.CreateScope
//@   nocheck
//@   interferes
//@   ensures value_xor_error: (result1 == nil) <==> (result0 != nil)
//@ func godi.Scope.Close
//@   nocheck
//@   interferes
//@ func godi.Scope.Context
//@   nocheck
//@   pure
//@ func http.Request.Context
//@   nocheck
//@   pure
//@ func http.Request.WithContext
//@   nocheck
//@   pure
//@   ensures carries_context: result != nil && pure("http.Request.Context", result) == ctx
//@ func godi.FromContext
//@   nocheck
//@   nopanic
//@   ensures value_xor_error: (result1 == nil) <==> (result0 != nil)
//@ func godi.Resolve
//@   nocheck
//@   interferes
//@   nopanic
{extra}'''

def mw(P):
    # P: dict with names
    lines = []
    A = lines.append
    A('//@ func %s' % P['unit'])
    A('//@   safety[C16]')
    A('//@   requires captured: provider != nil && cfg != nil && %s' % P['captured'])
    A('//@   requires handlers_set: cfg.ErrorHandler != nil && cfg.CloseErrorHandler != nil')
    A('//@   requires middlewares_nonnil: forall i int :: 0 <= i && i < len(cfg.Middlewares) ==> cfg.Middlewares[i] != nil')
    A('//@   ghost mws []%s' % P['mwtype'])
    A('//@   at before loop 1 : ghost mws := cfg.Middlewares')
    for l in P.get('lets', []):
        A('//@   let ' + l)
    A('//@   ensures[C16] one_scope_per_request: ncalls("godi.Provider.CreateScope") == 1 && callarg("godi.Provider.CreateScope", 0, 0) == provider')
    A('//@        && callarg("godi.Provider.CreateScope", 0, 1) == %s' % P['reqctx0'])
    A('//@   ensures[C16] creation_failure_runs_error_handler_only: callret("godi.Provider.CreateScope", 0, 1) != nil ==> ncalls("field:Config.ErrorHandler") == 1')
    A('//@        && callarg("field:Config.ErrorHandler", 0, %d) == callret("godi.Provider.CreateScope", 0, 1)' % P['erridx'])
    A('//@        && ncalls("%s") == 0 && ncalls("fnvar:mw") == 0 && ncalls("godi.Scope.Close") == 0' % P['next'])
    A('//@   ensures[C16] scope_closed_exactly_once: callret("godi.Provider.CreateScope", 0, 1) == nil ==> ncalls("godi.Scope.Close") == 1 && callarg("godi.Scope.Close", 0, 0) == callret("godi.Provider.CreateScope", 0, 0)')
    if P.get('close_on_panic', True):
        A('//@   panics[C16] scope_closed_exactly_once_on_panic: ncalls("godi.Provider.CreateScope") == 1 && (!callpanicked("godi.Provider.CreateScope", 0) && callret("godi.Provider.CreateScope", 0, 1) == nil ==>')
        A('//@        ncalls("godi.Scope.Close") == 1 && callarg("godi.Scope.Close", 0, 0) == callret("godi.Provider.CreateScope", 0, 0))')
    else:
        A('// Panic exit: this middleware has no deferred Close. What is proved instead is that the scope is stored in the request locals before any')
        A('// user code runs (scope_attached_before_user_code); "fasthttp closes io.Closer user values when the request context is released" is an')
        A('// ASSUMED external contract (listed in the evidence), exercised by the replay family middleware/request.')
        A('//@   panics[C16] scope_stored_for_the_framework_to_close: ncalls("godi.Provider.CreateScope") == 1 && (!callpanicked("godi.Provider.CreateScope", 0) && callret("godi.Provider.CreateScope", 0, 1) == nil && ncalls("godi.Scope.Close") == 0 ==>')
        A('//@        ncalls("fiber.Ctx.Locals") == 1 && len(callarg("fiber.Ctx.Locals", 0, 2, "[]any")) == 1 && callarg("fiber.Ctx.Locals", 0, 2, "[]any")[0] == callret("godi.Provider.CreateScope", 0, 0))')
    A('//@   ensures[C16] close_after_the_handler_chain: forall a int :: (0 <= a && a < ncalls("fnvar:mw") ==> calltime("fnvar:mw", a) < calltime("godi.Scope.Close", 0))')
    A('//@        && (0 <= a && a < ncalls("%s") ==> calltime("%s", a) < calltime("godi.Scope.Close", 0))' % (P['next'], P['next']))
    A('//@   ensures[C16] middlewares_in_order_with_this_scope: forall c int :: 0 <= c && c < ncalls("fnvar:mw") ==> c < len(mws) && callarg("fnvar:mw", c, 0) == mws[c]')
    A('//@        && callarg("fnvar:mw", c, 1) == callret("godi.Provider.CreateScope", 0, 0)')
    A('//@   ensures[C16] middleware_error_stops_the_request: forall c int :: 0 <= c && c < ncalls("fnvar:mw") && callret("fnvar:mw", c, 0) != nil ==> c == ncalls("fnvar:mw") - 1')
    A('//@        && ncalls("%s") == 0 && ncalls("field:Config.ErrorHandler") == 1 && callarg("field:Config.ErrorHandler", 0, %d) == callret("fnvar:mw", c, 0)' % (P['next'], P['erridx']))
    A('//@   ensures[C16] handler_runs_once_after_all_middlewares: callret("godi.Provider.CreateScope", 0, 1) == nil && (forall c int :: 0 <= c && c < ncalls("fnvar:mw") ==> callret("fnvar:mw", c, 0) == nil) ==>')
    A('//@        ncalls("fnvar:mw") == len(mws) && ncalls("%s") == 1 && ncalls("field:Config.ErrorHandler") == 0 && %s' % (P['next'], P['nextarg']))
    A('//@   ensures[C16] scope_attached_before_user_code: %s' % P['attached'])
    if P['pkg'] == 'gin':
        # gin runs the rest of the handler chain when a middleware merely returns: a rejected request has to be aborted
        A('//@   ensures[C16] rejected_request_is_aborted: ncalls("field:Config.ErrorHandler") == 1 ==> ncalls("gin.Context.Abort") >= 1 && callarg("gin.Context.Abort", ncalls("gin.Context.Abort") - 1, 0, "*gin.Context") == c && calltime("field:Config.ErrorHandler", 0) < calltime("gin.Context.Abort", ncalls("gin.Context.Abort") - 1)')
        A('//@   ensures[C16] served_request_is_not_aborted: ncalls("field:Config.ErrorHandler") == 0 ==> ncalls("gin.Context.Abort") == 0')
    A('//@   ensures[C16] close_error_reported: ncalls("field:Config.CloseErrorHandler") <= 1 && (ncalls("field:Config.CloseErrorHandler") == 1 ==> callarg("field:Config.CloseErrorHandler", 0, 1) == callret("godi.Scope.Close", 0, 0) && callret("godi.Scope.Close", 0, 0) != nil)')
    A('//@   loop 1')
    A('//@     invariant progress: ncalls("fnvar:mw") == idx && ncalls("%s") == 0 && ncalls("field:Config.ErrorHandler") == 0 && ncalls("godi.Scope.Close") == 0' % P['next'] + (' && ncalls("gin.Context.Abort") == 0' if P['pkg'] == 'gin' else ''))
    A('//@        && ncalls("godi.Provider.CreateScope") == 1 && callret("godi.Provider.CreateScope", 0, 1) == nil && scope == callret("godi.Provider.CreateScope", 0, 0) && ncalls("field:Config.CloseErrorHandler") == 0')
    A('//@        && %s' % P['loopattached'])
    A('//@     invariant in_order: forall c int :: 0 <= c && c < idx ==> callarg("fnvar:mw", c, 0) == mws[c] && callarg("fnvar:mw", c, 1) == scope && callret("fnvar:mw", c, 0) == nil')
    return '\n'.join(lines) + '\n'

def handle(P):
    lines = []
    A = lines.append
    A('//')
    A('//@ func Handle$1')
    A('//@   safety[C16]')
    A('//@   requires captured: cfg != nil && method != nil && %s' % P['hcaptured'])
    A('//@   requires handlers_set: cfg.PanicHandler != nil && cfg.ScopeErrorHandler != nil && cfg.ResolutionErrorHandler != nil')
    A('//@   let recovery = cfg.PanicRecovery')
    for l in P.get('hlets', []):
        A('//@   let ' + l)
    if P.get('fromctx', True):
        A('//@   ensures[C16] scope_from_request_context: ncalls("godi.FromContext") == 1 && callarg("godi.FromContext", 0, 0) == %s' % P['hreqctx'])
        A('//@   ensures[C16] no_scope_runs_scope_error_handler_only: callret("godi.FromContext", 0, 1) != nil ==> ncalls("field:HandlerConfig.ScopeErrorHandler") == 1')
        A('//@        && callarg("field:HandlerConfig.ScopeErrorHandler", 0, %d) == callret("godi.FromContext", 0, 1) && ncalls("godi.Resolve") == 0 && ncalls("fnvar:method") == 0 && ncalls("field:HandlerConfig.ResolutionErrorHandler") == 0' % P['herridx'])
        A('//@   ensures[C16] resolves_from_the_request_scope: callret("godi.FromContext", 0, 1) == nil ==> ncalls("godi.Resolve") == 1 && callarg("godi.Resolve", 0, 0) == callret("godi.FromContext", 0, 0) && ncalls("field:HandlerConfig.ScopeErrorHandler") == 0')
    else:
        A('//@   ensures[C16] scope_from_request_locals: ncalls("fiber.Ctx.Locals") == 1 && callarg("fiber.Ctx.Locals", 0, 0) == c && callarg("fiber.Ctx.Locals", 0, 1) == box(scopeKey, "string")')
        A('//@   ensures[C16] no_scope_runs_scope_error_handler_only: !typeis(callret("fiber.Ctx.Locals", 0, 0), "godi.Scope") ==> ncalls("field:HandlerConfig.ScopeErrorHandler") == 1')
        A('//@        && ncalls("godi.Resolve") == 0 && ncalls("fnvar:method") == 0 && ncalls("field:HandlerConfig.ResolutionErrorHandler") == 0')
        A('//@   ensures[C16] resolves_from_the_request_scope: typeis(callret("fiber.Ctx.Locals", 0, 0), "godi.Scope") ==> ncalls("godi.Resolve") == 1 && callarg("godi.Resolve", 0, 0) == callret("fiber.Ctx.Locals", 0, 0) && ncalls("field:HandlerConfig.ScopeErrorHandler") == 0')
    A('//@   ensures[C16] resolution_failure_runs_resolution_error_handler_only: ncalls("godi.Resolve") == 1 && callret("godi.Resolve", 0, 1) != nil ==> ncalls("field:HandlerConfig.ResolutionErrorHandler") == 1')
    A('//@        && callarg("field:HandlerConfig.ResolutionErrorHandler", 0, %d) == callret("godi.Resolve", 0, 1) && ncalls("fnvar:method") == 0' % P['herridx'])
    A('//@   ensures[C16] method_only_after_resolving_the_controller: ncalls("fnvar:method") <= 1 && (ncalls("fnvar:method") == 1 ==> ncalls("godi.Resolve") == 1 && callret("godi.Resolve", 0, 1) == nil')
    A('//@        && callarg("fnvar:method", 0, 0) == method && callarg("fnvar:method", 0, 1) == callret("godi.Resolve", 0, 0) && ncalls("field:HandlerConfig.ResolutionErrorHandler") == 0)')
    A('//@   ensures[C16] resolved_controller_is_used: ncalls("godi.Resolve") == 1 && callret("godi.Resolve", 0, 1) == nil && !(recovery && ncalls("field:HandlerConfig.PanicHandler") == 1) ==> ncalls("fnvar:method") == 1')
    A('//@   ensures[C16] panic_handler_only_when_enabled: ncalls("field:HandlerConfig.PanicHandler") <= 1 && (ncalls("field:HandlerConfig.PanicHandler") == 1 ==> recovery)')
    A('//@   panics[C16] panics_pass_through_only_when_recovery_is_off: !recovery || ncalls("field:HandlerConfig.PanicHandler") == 1')
    return '\n'.join(lines) + '\n'

PK = {
 'http': dict(pkg='http', extra='//@ func http.Handler.ServeHTTP\n//@   nocheck\n//@   interferes\n//\n',
   unit='ScopeMiddleware$1$1', captured='next != nil && r != nil', mwtype='func(godi.Scope, *http.Request) error', lets=['req0 = r'],
   reqctx0='pure("http.Request.Context", req0)', erridx=3, next='http.Handler.ServeHTTP',
   nextarg='callarg("http.Handler.ServeHTTP", 0, 0) == next && pure("http.Request.Context", callarg("http.Handler.ServeHTTP", 0, 2, "*http.Request")) == pure("godi.Scope.Context", callret("godi.Provider.CreateScope", 0, 0, "godi.Scope"))',
   attached='forall c int :: 0 <= c && c < ncalls("fnvar:mw") ==> pure("http.Request.Context", callarg("fnvar:mw", c, 2, "*http.Request")) == pure("godi.Scope.Context", callret("godi.Provider.CreateScope", 0, 0, "godi.Scope"))',
   loopattached='pure("http.Request.Context", r) == pure("godi.Scope.Context", scope) && (forall c int :: 0 <= c && c < idx ==> pure("http.Request.Context", callarg("fnvar:mw", c, 2, "*http.Request")) == pure("godi.Scope.Context", scope))',
   hcaptured='r != nil', hreqctx='pure("http.Request.Context", r)', herridx=3),
}
PK['chi'] = dict(PK['http'], pkg='chi')
PK['gin'] = dict(pkg='gin', extra='//@ func gin.Context.Next\n//@   nocheck\n//@   interferes\n//@ func gin.Context.Abort\n//@   nocheck\n//@   nopanic\n//\n',
   unit='ScopeMiddleware$1', captured='c != nil && c.Request != nil', mwtype='func(godi.Scope, *gin.Context) error', lets=['req0 = c.Request'],
   reqctx0='pure("http.Request.Context", req0)', erridx=2, next='gin.Context.Next',
   nextarg='callarg("gin.Context.Next", 0, 0) == c',
   attached='ncalls("http.Request.WithContext") == ite(callret("godi.Provider.CreateScope", 0, 1) == nil, 1, 0) && (ncalls("http.Request.WithContext") == 1 ==> callarg("http.Request.WithContext", 0, 1) == pure("godi.Scope.Context", callret("godi.Provider.CreateScope", 0, 0, "godi.Scope")) && (forall a int :: 0 <= a && a < ncalls("fnvar:mw") ==> calltime("http.Request.WithContext", 0) < calltime("fnvar:mw", a)) && (forall a int :: 0 <= a && a < ncalls("gin.Context.Next") ==> calltime("http.Request.WithContext", 0) < calltime("gin.Context.Next", a)))',
   loopattached='ncalls("http.Request.WithContext") == 1 && callarg("http.Request.WithContext", 0, 1) == pure("godi.Scope.Context", scope) && calltime("http.Request.WithContext", 0) < clock && (forall a int :: 0 <= a && a < idx ==> calltime("http.Request.WithContext", 0) < calltime("fnvar:mw", a))',
   hcaptured='c != nil && c.Request != nil', hreqctx='pure("http.Request.Context", hreq0)', herridx=2, hlets=['hreq0 = c.Request'])
PK['echo'] = dict(pkg='echo', extra='//@ func echo.Context.Request\n//@   nocheck\n//@   pure\n//@   ensures nonnil: result != nil\n//@ func echo.Context.SetRequest\n//@   nocheck\n//@   nopanic\n//\n',
   unit='ScopeMiddleware$1$1', captured='next != nil && c != nil', mwtype='func(godi.Scope, echo.Context) error', lets=[],
   reqctx0='pure("http.Request.Context", pure("echo.Context.Request", c))', erridx=2, next='fn:HandlerFunc',
   nextarg='callarg("fn:HandlerFunc", 0, 0) == next && callarg("fn:HandlerFunc", 0, 1) == c',
   attached='ncalls("echo.Context.SetRequest") == ite(callret("godi.Provider.CreateScope", 0, 1) == nil, 1, 0) && (ncalls("echo.Context.SetRequest") == 1 ==> pure("http.Request.Context", callarg("echo.Context.SetRequest", 0, 1, "*http.Request")) == pure("godi.Scope.Context", callret("godi.Provider.CreateScope", 0, 0, "godi.Scope")) && (forall a int :: 0 <= a && a < ncalls("fnvar:mw") ==> calltime("echo.Context.SetRequest", 0) < calltime("fnvar:mw", a)) && (forall a int :: 0 <= a && a < ncalls("fn:HandlerFunc") ==> calltime("echo.Context.SetRequest", 0) < calltime("fn:HandlerFunc", a)))',
   loopattached='ncalls("echo.Context.SetRequest") == 1 && pure("http.Request.Context", callarg("echo.Context.SetRequest", 0, 1, "*http.Request")) == pure("godi.Scope.Context", scope) && calltime("echo.Context.SetRequest", 0) < clock && (forall a int :: 0 <= a && a < idx ==> calltime("echo.Context.SetRequest", 0) < calltime("fnvar:mw", a))',
   hcaptured='c != nil', hreqctx='pure("http.Request.Context", pure("echo.Context.Request", c))', herridx=2)
PK['fiber'] = dict(pkg='fiber', extra='//@ func fiber.Ctx.UserContext\n//@   nocheck\n//@   pure\n//@ func fiber.Ctx.SetUserContext\n//@   nocheck\n//@   nopanic\n//@ func fiber.Ctx.Locals\n//@   nocheck\n//@   nopanic\n//@ func fiber.Ctx.Next\n//@   nocheck\n//@   interferes\n//\n',
   unit='ScopeMiddleware$1', captured='c != nil', mwtype='func(godi.Scope, *fiber.Ctx) error', lets=[],
   reqctx0='pure("fiber.Ctx.UserContext", c)', erridx=2, next='fiber.Ctx.Next',
   nextarg='callarg("fiber.Ctx.Next", 0, 0) == c',
   attached='ncalls("fiber.Ctx.SetUserContext") == ite(callret("godi.Provider.CreateScope", 0, 1) == nil, 1, 0) && ncalls("fiber.Ctx.Locals") == ncalls("fiber.Ctx.SetUserContext") && (ncalls("fiber.Ctx.SetUserContext") == 1 ==> callarg("fiber.Ctx.SetUserContext", 0, 1) == pure("godi.Scope.Context", callret("godi.Provider.CreateScope", 0, 0, "godi.Scope")) && callarg("fiber.Ctx.Locals", 0, 1) == box(scopeKey, "string") && (forall a int :: 0 <= a && a < ncalls("fnvar:mw") ==> calltime("fiber.Ctx.Locals", 0) < calltime("fnvar:mw", a)) && (forall a int :: 0 <= a && a < ncalls("fiber.Ctx.Next") ==> calltime("fiber.Ctx.Locals", 0) < calltime("fiber.Ctx.Next", a)))',
   loopattached='ncalls("fiber.Ctx.SetUserContext") == 1 && ncalls("fiber.Ctx.Locals") == 1 && callarg("fiber.Ctx.SetUserContext", 0, 1) == pure("godi.Scope.Context", scope) && callarg("fiber.Ctx.Locals", 0, 1) == box(scopeKey, "string") && calltime("fiber.Ctx.Locals", 0) < clock && (forall a int :: 0 <= a && a < idx ==> calltime("fiber.Ctx.Locals", 0) < calltime("fnvar:mw", a))',
   hcaptured='c != nil', hreqctx='', herridx=2, fromctx=False)

def options(P):
    # the library's own option constructors never leave the configuration without a handler: a nil argument keeps the default
    # (C15: no container operation panics on any input; the Config comments promise the default handler for nil)
    lines = ['// The option constructors of this package keep the configuration complete: a nil handler keeps what is there (the default).',
             '// This is what makes `handlers_set`, the precondition of the request closures above, true for configurations built from them.']
    for fn, field, cfgname in [('WithErrorHandler', 'ErrorHandler', 'c'), ('WithCloseErrorHandler', 'CloseErrorHandler', 'c'),
                      ('WithPanicHandler', 'PanicHandler', 'c'), ('WithScopeErrorHandler', 'ScopeErrorHandler', 'c'),
                      ('WithResolutionErrorHandler', 'ResolutionErrorHandler', 'c')]:
        lines.append('//@ func %s$1' % fn)
        lines.append('//@   safety[C15,C16]')
        lines.append('//@   requires cfg: %s != nil' % cfgname)
        lines.append('//@   ensures[C15,C16] a_nil_handler_keeps_the_default: old(%s.%s) != nil ==> %s.%s != nil' % (cfgname, field, cfgname, field))
        lines.append('//@   ensures[C16] a_given_handler_is_installed: h != nil ==> %s.%s == h' % (cfgname, field))
    return "\n".join(lines) + "\n//\n"

for k, P in PK.items():
    txt = HEAD.format(pkg=P['pkg'], extra=P['extra']) + mw(P) + handle(P) + options(P)
    open('/repo/%s/zz_contracts_verif.go' % k, 'w').write(txt)
    print('wrote', k)
