#!/bin/bash
# usage: tools/eval_seeded.sh [seed-name-glob]   -- runs, for every kept seeded change, the quick check of the property it breaks
# against a scratch worktree of /repo with the change applied (never touches /repo), and records which obligations fail.
cd /verif
glob=${1:-*}
mkdir -p /tmp/evalseed
one() {
  d=$1; name=$(basename $d); prop=$(python3 -c "import json;print(json.load(open('$d/meta.json'))['breaks_property'])")
  wt=/tmp/evalseed/wt-$name; vr=/tmp/evalseed/vr-$name
  git -C /repo worktree add -f --detach $wt HEAD >/dev/null 2>&1
  (cd $wt && git apply $d/patch.diff) || { echo "$name: patch does not apply"; git -C /repo worktree remove --force $wt; return; }
  mkdir -p $vr; cp /verif/obligations.lock.json /verif/known_findings.json $vr/
  extra=$(python3 -c "import json;print(' '.join(json.load(open('$d/meta.json')).get('also_check',[])))")
  res=""
  for p in $prop $extra; do
    out=$(VERIF_ROOT=$vr VERIF_SCRATCH=$vr/scratch /verif/bin/govc check -prop $p -repo $wt -par 6 2>&1)
    nv=$(echo "$out" | grep -c '^VIOLATION')
    obl=$(echo "$out" | grep '^FAILED' | sed 's/^FAILED \([^ ]*\).*/\1/' | tr '\n' ' ')
    res="$res | $p: violations=$nv $obl"
  done
  echo "$name$res"
  git -C /repo worktree remove --force $wt >/dev/null 2>&1; rm -rf $vr
}
export -f one
ls -d /verif/seeded/$glob/ | sed 's:/$::' | xargs -P 4 -I{} bash -c 'one {}'
