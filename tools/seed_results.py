#!/usr/bin/env python3
# usage: tools/seed_results.py <eval log> -- rewrites seeded/RESULTS.md from the output of tools/eval_seeded.sh
import re,json,sys
rows=[]
for l in sorted(open(sys.argv[1])):
    parts=[p.strip() for p in l.strip().split(' | ')]
    if not parts or not parts[0]: continue
    name=parts[0]
    try: meta=json.load(open(f'/verif/seeded/{name}/meta.json'))
    except Exception: continue
    own=meta['breaks_property']
    res=[]
    for p in parts[1:]:
        m=re.match(r'(C\d\d): violations=(\d+)\s*(.*)',p)
        if not m: continue
        res.append((m.group(1),int(m.group(2)),m.group(3).split()))
    rows.append((name,own,res))
out=["# Seeded changes: which check reports which change","",
"Produced by `tools/eval_seeded.sh` + `tools/seed_results.py` (each change applied to a scratch worktree of /repo HEAD, never to /repo; the quick check of the",
"property it breaks, plus the `also_check` properties of its meta.json, run with `-repo <worktree>`). `#generation` means the",
"function under contract left the verified subset or lost an anchored statement/loop, so its ledger obligations could not be",
"generated (reported as a violation of every property they carry, with no-failing-input-found).","",
"| change | breaks | reported by (first obligations) |","|---|---|---|"]
caught_own=0; caught=0
for name,own,res in rows:
    cells=[]; ok_own=False; ok=False
    for prop,n,obl in res:
        if n>0 and obl:
            ok=True
            if prop==own: ok_own=True
            short=[o.split('.',1)[1] if o.startswith(('godi.','graph.','reflection.')) else o for o in obl[:2]]
            cells.append(f"{prop}: "+", ".join(f"`{o}`" for o in short)+(" …" if len(obl)>2 else ""))
        else:
            cells.append(f"{prop}: not reported")
    caught+=ok; caught_own+=ok_own
    out.append(f"| {name} | {own} | "+"; ".join(cells)+" |")
out+=["",f"{len(rows)} changes; {caught} reported by at least one check; {caught_own} reported by the check of the property they were written against."]
open('/verif/seeded/RESULTS.md','w').write("\n".join(out)+"\n")
print(out[-1])
