#!/bin/bash
# usage: tools/eval_benign.sh  -- applies every behaviour-preserving edit in selftest/benign to a scratch worktree of /repo HEAD
# (never to /repo) and runs the listed checks: every one must stay silent.
cd /verif
declare -A props=( [capacity-hints]="C02 C19 C13" [reorder-field-initialisers]="C02 C18" [extract-helper-in-validation]="C08" [negated-branch-in-kahn]="C06" [extra-diagnostics]="C01 C06" [unused-local-renamed]="C02 C18" [kahn-lifo-queue]="C06" [swap-cache-update-statements]="C06 C19" [release-local-alias]="C02 C09" [depths-lifo-queue]="C19" )
mkdir -p /tmp/evalbenign
for f in selftest/benign/*.diff; do
  name=$(basename $f .diff); wt=/tmp/evalbenign/wt-$name; vr=/tmp/evalbenign/vr-$name
  git -C /repo worktree add -f --detach $wt HEAD >/dev/null 2>&1
  (cd $wt && git apply /verif/$f) || { echo "$name: patch does not apply"; git -C /repo worktree remove --force $wt; continue; }
  mkdir -p $vr; cp obligations.lock.json known_findings.json $vr/
  res=""
  for p in ${props[$name]}; do
    out=$(VERIF_ROOT=$vr VERIF_SCRATCH=$vr/scratch bin/govc check -prop $p -repo $wt -par 8 2>&1)
    nv=$(echo "$out" | grep -c '^VIOLATION'); res="$res $p:violations=$nv"
    [ "$nv" != 0 ] && echo "$out" | grep '^FAILED' | cut -c1-200
  done
  echo "$name:$res"
  git -C /repo worktree remove --force $wt >/dev/null 2>&1; rm -rf $vr
done
