#!/bin/sh
# usage: ./check.sh <property id> <quick|thorough>
cd "$(dirname "$0")"
[ -x bin/govc ] || ./setup.sh >/dev/null 2>&1
export VERIF_ROOT="${VERIF_ROOT:-$(pwd)}"
exec bin/govc check -prop "$1" -tier "${2:-quick}" -par 8
