#!/bin/sh
# Build govc (the VC generator) offline from files on disk only.
set -e
cd "$(dirname "$0")/govc"
export GOFLAGS=-mod=vendor GOPROXY=off
mkdir -p ../bin
go build -o ../bin/govc .
